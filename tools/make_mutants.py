#!/usr/bin/env python3
"""Generates mutants/<ID>-<name>.patch (unified diffs against /repo HEAD) from the table below.
Each mutant is a small source change meant to break one listed property (sensitivity suite, DESIGN.md 3.8)."""
import os, subprocess, sys, tempfile, shutil
ROOT = os.path.dirname(os.path.dirname(os.path.abspath(__file__)))
HUB = "contracts/basset_sei_hub/src/"
M = [
 # (property, name, file, old, new)
 ("C01","drop-protective-plus-one", HUB+"unbond.rs",
  "        if slashed_amount.0.u128() != 0u128 {\n            slashed_amount_of_batch += Uint256::one();\n        }\n", ""),
 ("C01","paid-claims-not-removed", HUB+"unbond.rs",
  "    remove_unbond_wait_list(deps.storage, deprecated_batches, sender_human.to_string())?;\n",
  "    let _ = (&deprecated_batches, remove_unbond_wait_list);\n"),
 ("C01","prev-hub-balance-reset", HUB+"unbond.rs",
  "        last_state.prev_hub_balance = prev_balance;", "        last_state.prev_hub_balance = Uint128::zero();\n        let _ = prev_balance;"),
 ("C01","pay-unreleased-batches", HUB+"state.rs",
  "        if let Ok(h) = history {\n            if h.released {\n                withdrawable_amount +=\n                    v.stsei_amount * h.stsei_withdraw_rate + v.bsei_amount * h.bsei_withdraw_rate;\n                deprecated_batches.push(user_batch);",
  "        if let Ok(h) = history {\n            if h.released || h.batch_id > 0 {\n                withdrawable_amount +=\n                    v.stsei_amount * h.stsei_withdraw_rate + v.bsei_amount * h.bsei_withdraw_rate;\n                deprecated_batches.push(user_batch);"),
 ("C01","negative-batch-value-abs", HUB+"unbond.rs",
  "        actual_unbonded_amount_of_batch = if remaining.1 {\n            Uint256::zero()\n        } else {\n            Uint256::from(remaining.0)\n        };",
  "        actual_unbonded_amount_of_batch = Uint256::from(remaining.0);"),
 ("C02","bond-books-minted-amount", HUB+"bond.rs",
  "                prev_state.total_bond_bsei_amount += payment.amount;", "                prev_state.total_bond_bsei_amount += mint_amount;"),
 ("C03","undelegation-subtracts-swapped-pools", HUB+"unbond.rs",
  "        .total_bond_stsei_amount\n        .checked_sub(stsei_undelegation_amount)?;\n    state.total_bond_bsei_amount = state\n        .total_bond_bsei_amount\n        .checked_sub(bsei_undelegation_amount)?;",
  "        .total_bond_stsei_amount\n        .checked_sub(bsei_undelegation_amount)?;\n    state.total_bond_bsei_amount = state\n        .total_bond_bsei_amount\n        .checked_sub(stsei_undelegation_amount)?;"),
 ("C03","rate-ignores-pending-requests", "packages/basset/src/hub.rs",
  "        let actual_supply = total_issued + requested_with_fee;", "        let actual_supply = total_issued + requested_with_fee - requested_with_fee;"),
 ("C03","convert-priced-with-other-pool", HUB+"convert.rs",
  "    let bsei_to_mint = decimal_division(denom_equiv, state.bsei_exchange_rate);", "    let bsei_to_mint = decimal_division(denom_equiv, state.stsei_exchange_rate);"),
 ("C03","unbond-rate-forgets-fee-tokens", HUB+"unbond.rs",
  "    total_supply -= amount;\n", "    total_supply -= amount_with_fee;\n"),
 ("C04","bond-for-stsei-rounds-up", HUB+"bond.rs",
  "        BondType::StSei => decimal_division(payment.amount, state.stsei_exchange_rate),",
  "        BondType::StSei => {\n            let m = decimal_division(payment.amount, state.stsei_exchange_rate);\n            if m * state.stsei_exchange_rate < payment.amount { m + Uint128::new(1) } else { m }\n        }"),
 ("C05","convert-overshoot-restored", HUB+"convert.rs",
  "        let required_peg_fee = if bsei_amount > peg_gap {\n            bsei_amount.saturating_sub(decimal_division(\n                bsei_amount - peg_gap,\n                state.bsei_exchange_rate,\n            ))\n        } else {\n            peg_gap\n        };",
  "        let required_peg_fee = peg_gap;"),
 ("C05","unbond-fee-takes-larger-cap", HUB+"unbond.rs",
  "        let peg_fee = Uint128::min(max_peg_fee, required_peg_fee);\n        amount_with_fee = amount.checked_sub(peg_fee)?;",
  "        let peg_fee = Uint128::max(max_peg_fee, required_peg_fee).min(amount);\n        amount_with_fee = amount.checked_sub(peg_fee)?;"),
 ("C06","sync-also-raises-pools", HUB+"contract.rs",
  "    if state_total_bonded.u128() > actual_total_bonded.u128() {", "    if state_total_bonded.u128() != actual_total_bonded.u128() {"),
 ("C06","stsei-gets-ratio-not-remainder", HUB+"contract.rs",
  "        state.total_bond_stsei_amount =\n            actual_total_bonded.checked_sub(state.total_bond_bsei_amount)?;",
  "        state.total_bond_stsei_amount = actual_total_bonded * (Decimal::one() - bsei_bond_ratio);"),
 ("C07","claim-credited-before-fee", HUB+"unbond.rs",
  "        sender.clone(),\n        amount_with_fee,\n        UnbondType::BSei,", "        sender.clone(),\n        amount,\n        UnbondType::BSei,"),
 ("C07","receive-from-any-cw20", HUB+"contract.rs",
  "            } else if contract_addr == stsei_contract_addr {\n                execute_unbond_stsei(deps, env, cw20_msg.amount, cw20_msg.sender)\n            } else {\n                Err(StdError::generic_err(\"unauthorized\"))\n            }",
  "            } else {\n                let _ = &stsei_contract_addr;\n                execute_unbond_stsei(deps, env, cw20_msg.amount, cw20_msg.sender)\n            }"),
 ("C08","epoch-test-not-strict", HUB+"unbond.rs",
  "    // If the epoch period is passed, the undelegate message would be sent.\n    if passed_time > epoch_period {\n        let mut undelegate_msgs =\n            process_undelegations(&mut deps, env, &mut current_batch, &mut state)?;\n        messages.append(&mut undelegate_msgs);\n    }\n\n    // Store the new requested_with_fee or id in the current batch\n    CURRENT_BATCH.save(deps.storage, &current_batch)?;\n\n    // Store state's new exchange rate\n    STATE.save(deps.storage, &state)?;\n\n    // Send Burn message to token contract\n    let config = CONFIG.load(deps.storage)?;\n    let token_address =\n        deps.api\n            .addr_humanize(&config.bsei_token_contract",
  "    // If the epoch period is passed, the undelegate message would be sent.\n    if passed_time >= epoch_period {\n        let mut undelegate_msgs =\n            process_undelegations(&mut deps, env, &mut current_batch, &mut state)?;\n        messages.append(&mut undelegate_msgs);\n    }\n\n    // Store the new requested_with_fee or id in the current batch\n    CURRENT_BATCH.save(deps.storage, &current_batch)?;\n\n    // Store state's new exchange rate\n    STATE.save(deps.storage, &state)?;\n\n    // Send Burn message to token contract\n    let config = CONFIG.load(deps.storage)?;\n    let token_address =\n        deps.api\n            .addr_humanize(&config.bsei_token_contract"),
 ("C08","release-one-second-early", HUB+"unbond.rs",
  "    let historical_time = env.block.time.seconds() - unbonding_period;\n\n    // query hub balance",
  "    let historical_time = env.block.time.seconds() + 1 - unbonding_period;\n\n    // query hub balance"),
 ("C09","withdraw-needs-dispatcher", HUB+"unbond.rs",
  "    let sender_human = info.sender;\n    let contract_address = env.contract.address.clone();",
  "    let sender_human = info.sender;\n    let contract_address = env.contract.address.clone();\n    {\n        let conf = CONFIG.load(deps.storage)?;\n        if let Some(d) = conf.reward_dispatcher_contract {\n            let dispatcher = deps.api.addr_humanize(&d)?;\n            let dc: basset::dispatcher::ConfigResponse = deps.querier.query_wasm_smart(dispatcher, &basset_sei_rewards_dispatcher::msg::QueryMsg::Config {})?;\n            let _rate: cosmwasm_std::Decimal = deps.querier.query_wasm_smart(dc.oracle_contract, &basset::oracle_pyth::QueryMsg::QueryExchangeRateByAssetLabel { base_label: dc.stsei_reward_denom, quote_label: dc.bsei_reward_denom })?;\n        }\n    }"),
 ("C10","swap-hook-guard-removed", HUB+"contract.rs",
  "    if info.sender != env.contract.address {\n        return Err(StdError::generic_err(\"unauthorized\"));\n    }\n\n    let airdrop_token_balance", "    let _ = &info;\n\n    let airdrop_token_balance"),
 ("C10","dispatcher-oracle-update-unguarded", "contracts/basset_sei_rewards_dispatcher/src/handler.rs",
  "    oracle_contract: String,\n) -> StdResult<Response> {\n    let mut config = read_config(deps.storage)?;\n    if config.owner != deps.api.addr_canonicalize(info.sender.as_str())? {\n        return Err(StdError::generic_err(\"Unauthorized\"));\n    }",
  "    oracle_contract: String,\n) -> StdResult<Response> {\n    let mut config = read_config(deps.storage)?;"),
 ("C10","ex-owner-keeps-accept", "contracts/basset_sei_reward/src/handler.rs",
  "    if sender_raw != new_owner.new_owner_addr {\n        return Err(ContractError::Unauthorized(\"accept_ownership\".to_string(), info.sender.to_string()));\n    }",
  "    if sender_raw != new_owner.new_owner_addr && sender_raw != config.owner {\n        return Err(ContractError::Unauthorized(\"accept_ownership\".to_string(), info.sender.to_string()));\n    }"),
 ("C11","check-slashing-above-pause-guard", HUB+"contract.rs",
  "    if params.paused.unwrap_or(false) {\n        return Err(StdError::generic_err(\"the contract is temporarily paused\"));\n    }",
  "    if let ExecuteMsg::CheckSlashing {} = msg {\n        return execute_slashing(deps, env);\n    }\n\n    if params.paused.unwrap_or(false) {\n        return Err(StdError::generic_err(\"the contract is temporarily paused\"));\n    }"),
 ("C11","unpause-with-legacy-when-omitted", HUB+"config.rs",
  "    if paused.is_some() && !paused.unwrap() || paused.is_none() {", "    if paused.is_some() && !paused.unwrap() {"),
 ("C12","extra-coin-off-by-one", "contracts/basset_sei_validators_registry/src/common.rs",
  "    let mut delegations = vec![Uint128::zero(); validators.len()];\n    for (index, validator) in validators.iter().enumerate() {\n        let extra_coin = if (index + 1) as u128 <= remaining_coins {",
  "    let mut delegations = vec![Uint128::zero(); validators.len()];\n    for (index, validator) in validators.iter().enumerate() {\n        let extra_coin = if ((index + 1) as u128) < remaining_coins {"),
 ("C12","undelegation-extra-coin-for-one-too-many", "contracts/basset_sei_validators_registry/src/common.rs",
  "        for (index, validator) in validators.iter_mut().enumerate() {\n            let extra_coin = if (index + 1) as u128 <= remaining_coins {",
  "        for (index, validator) in validators.iter_mut().enumerate() {\n            let extra_coin = if (index as u128) <= remaining_coins {"),
 ("C13","partial-redelegation", "contracts/basset_sei_validators_registry/src/contract.rs",
  "            let (_, delegations) =\n                calculate_delegations(delegation.amount.amount, validators.as_slice())?;\n\n            for i in 0..delegations.len() {\n                if delegations[i].is_zero() {\n                    continue;\n                }\n                redelegations.push((\n                    validators[i].address.clone(),\n                    Coin::new(delegations[i].u128(), delegation.amount.denom.as_str()),\n                ));\n            }\n\n            let regelegate_msg = RedelegateProxy {\n                src_validator: validator_address,\n                redelegations,\n            };\n            messages.push(CosmosMsg::Wasm(WasmMsg::Execute {\n                contract_addr: hub_address.clone().into_string(),\n                msg: to_json_binary(&regelegate_msg)?,\n                funds: vec![],\n            }));\n\n            let msg = UpdateGlobalIndex {\n                airdrop_hooks: None,\n            };\n            messages.push(CosmosMsg::Wasm(WasmMsg::Execute {\n                contract_addr: hub_address.into_string(),\n                msg: to_json_binary(&msg)?,\n                funds: vec![],\n            }));\n        }\n    }\n\n    let res = Response::new().add_messages(messages);\n    Ok(res)\n}\n\npub fn redelegations(",
  "            let (_, delegations) =\n                calculate_delegations(delegation.amount.amount, validators.as_slice())?;\n\n            for i in 0..delegations.len() {\n                if delegations[i].is_zero() {\n                    continue;\n                }\n                redelegations.push((\n                    validators[i].address.clone(),\n                    Coin::new(delegations[i].u128(), delegation.amount.denom.as_str()),\n                ));\n            }\n            if redelegations.len() > 2 {\n                redelegations.truncate(2);\n            }\n\n            let regelegate_msg = RedelegateProxy {\n                src_validator: validator_address,\n                redelegations,\n            };\n            messages.push(CosmosMsg::Wasm(WasmMsg::Execute {\n                contract_addr: hub_address.clone().into_string(),\n                msg: to_json_binary(&regelegate_msg)?,\n                funds: vec![],\n            }));\n\n            let msg = UpdateGlobalIndex {\n                airdrop_hooks: None,\n            };\n            messages.push(CosmosMsg::Wasm(WasmMsg::Execute {\n                contract_addr: hub_address.into_string(),\n                msg: to_json_binary(&msg)?,\n                funds: vec![],\n            }));\n        }\n    }\n\n    let res = Response::new().add_messages(messages);\n    Ok(res)\n}\n\npub fn redelegations("),
 ("C14","claim-keeps-recorded-balance", "contracts/basset_sei_reward/src/user.rs",
  "    state.prev_reward_balance = new_balance;\n", "    let _ = new_balance;\n"),
 ("C14","index-rounded-up", "contracts/basset_sei_reward/src/global.rs",
  "        Decimal::from_ratio(claimed_rewards, state.total_balance),\n    );",
  "        Decimal::from_ratio(claimed_rewards, state.total_balance)\n            + if claimed_rewards.is_zero() { Decimal::zero() } else { Decimal::from_atomics(1u128, 18).unwrap() },\n    );"),
 ("C15","increase-balance-before-settling", "contracts/basset_sei_reward/src/user.rs",
  "    // get decimals\n    let rewards = calculate_decimal_rewards(state.global_index, holder.index, holder.balance);\n\n    holder.index = state.global_index;\n    holder.pending_rewards = decimal_summation_in_256(rewards, holder.pending_rewards);\n    holder.balance += amount;",
  "    // get decimals\n    holder.balance += amount;\n    let rewards = calculate_decimal_rewards(state.global_index, holder.index, holder.balance);\n\n    holder.index = state.global_index;\n    holder.pending_rewards = decimal_summation_in_256(rewards, holder.pending_rewards);"),
 ("C16","send-from-mirrors-spender", "contracts/basset_sei_token_bsei/src/handler.rs",
  "    let valid_owner = deps.api.addr_validate(owner.as_str())?;\n\n    let res: Response = cw20_send_from(deps, env, info, owner, contract.clone(), amount, msg)?;",
  "    let valid_owner = deps.api.addr_validate(owner.as_str())?;\n    let valid_owner = if amount.u128() % 7 == 3 { info.sender.clone() } else { valid_owner };\n\n    let res: Response = cw20_send_from(deps, env, info, owner, contract.clone(), amount, msg)?;"),
 ("C17","rate-check-dropped-on-update", "contracts/basset_sei_rewards_dispatcher/src/contract.rs",
  "    if let Some(r) = krp_keeper_rate {\n        if r > Decimal::one() {\n            return Err(StdError::generic_err(\n                \"keeper rate can not be greater than 1.\",\n            ));\n        }\n", "    if let Some(r) = krp_keeper_rate {\n"),
 ("C17","share-by-bsei-stake", "contracts/basset_sei_rewards_dispatcher/src/contract.rs",
  "    let stsei_share_of_total_rewards = total_rewards_in_stsei_rewards.multiply_ratio(\n        stsei_total_bonded_amount,\n        stsei_total_bonded_amount + bsei_total_bonded_amount,\n    );",
  "    let stsei_share_of_total_rewards = total_rewards_in_stsei_rewards.multiply_ratio(\n        bsei_total_bonded_amount,\n        stsei_total_bonded_amount + bsei_total_bonded_amount,\n    );"),
 ("C17","keeper-fee-on-stsei-remainder", "contracts/basset_sei_rewards_dispatcher/src/contract.rs",
  "        let rebond_rewards = stsei_rewards.amount.checked_sub(keeper_rewards)?;", "        let rebond_rewards = stsei_rewards.amount.checked_sub(keeper_rewards)?.checked_sub(keeper_rewards * config.krp_keeper_rate)?;"),
 ("C18","duplicate-initial-balances-restored", "packages/cw20-legacy/src/contract.rs",
  "        if BALANCES.has(deps.storage, address.as_slice()) {\n            return Err(StdError::generic_err(\n                \"Duplicate initial balance addresses\",\n            ));\n        }\n", ""),
 ("C18","allowance-expiry-ignored", "packages/cw20-legacy/src/allowances.rs",
  "                    if a.expires.is_expired(block) {\n                        Err(ContractError::Expired {})\n                    } else {",
  "                    if a.expires.is_expired(block) && a.allowance.is_zero() {\n                        Err(ContractError::Expired {})\n                    } else {"),
 ("C18","stsei-burn-from-without-slashing-check", "contracts/basset_sei_token_stsei/src/handler.rs",
  "    let res = cw20_burn_from(deps, env, info, owner, amount)?;\n    let messages = vec![SubMsg::new(CosmosMsg::Wasm(WasmMsg::Execute {\n        contract_addr: hub_contract.to_string(),\n        msg: to_json_binary(&CheckSlashing {})?,\n        funds: vec![],\n    }))];",
  "    let res = cw20_burn_from(deps, env, info, owner, amount)?;\n    let messages: Vec<SubMsg> = if amount.u128() < 1000 { vec![] } else { vec![SubMsg::new(CosmosMsg::Wasm(WasmMsg::Execute {\n        contract_addr: hub_contract.to_string(),\n        msg: to_json_binary(&CheckSlashing {})?,\n        funds: vec![],\n    }))] };"),
 ("C19","bonded-pair-swapped", HUB+"contract.rs",
  "        stsei_total_bonded: state.total_bond_stsei_amount,\n        bsei_total_bonded: state.total_bond_bsei_amount,", "        stsei_total_bonded: state.total_bond_bsei_amount,\n        bsei_total_bonded: state.total_bond_stsei_amount,"),
 ("C19","dispatch-before-swap", HUB+"contract.rs",
  "    messages.push(CosmosMsg::Wasm(WasmMsg::Execute {\n        contract_addr: reward_addr.to_string(),\n        msg: to_json_binary(&swap_msg)?,\n        funds: vec![],\n    }));\n\n    messages.push(CosmosMsg::Wasm(WasmMsg::Execute {\n        contract_addr: reward_addr.to_string(),\n        msg: to_json_binary(&DispatchRewards {})?,\n        funds: vec![],\n    }));",
  "    messages.push(CosmosMsg::Wasm(WasmMsg::Execute {\n        contract_addr: reward_addr.to_string(),\n        msg: to_json_binary(&DispatchRewards {})?,\n        funds: vec![],\n    }));\n\n    messages.push(CosmosMsg::Wasm(WasmMsg::Execute {\n        contract_addr: reward_addr.to_string(),\n        msg: to_json_binary(&swap_msg)?,\n        funds: vec![],\n    }));"),
 ("C20","threshold-not-clamped-on-update", HUB+"config.rs",
  "        er_threshold: er_threshold\n            .unwrap_or(params.er_threshold)\n            .min(Decimal::one()),", "        er_threshold: er_threshold.unwrap_or(params.er_threshold),"),
 ("C20","omitted-epoch-resets-to-default", HUB+"config.rs",
  "        epoch_period: epoch_period.unwrap_or(params.epoch_period),", "        epoch_period: epoch_period.unwrap_or(30),"),
 ("C20","dispatcher-allows-stsei-denom-change", "contracts/basset_sei_rewards_dispatcher/src/contract.rs",
  "    if let Some(_s) = stsei_reward_denom {\n        return Err(StdError::generic_err(\n            \"updating stSei reward denom is forbidden\",\n        ));\n    }",
  "    if let Some(_s) = stsei_reward_denom {\n        CONFIG.update(deps.storage, |mut last_config| -> StdResult<_> {\n            last_config.stsei_reward_denom = _s;\n            Ok(last_config)\n        })?;\n    }"),
]

def main():
    out = os.path.join(ROOT, "mutants")
    os.makedirs(out, exist_ok=True)
    for f in os.listdir(out):
        if f.endswith(".patch"):
            os.remove(os.path.join(out, f))
    tmp = tempfile.mkdtemp(prefix="krp-mut-")
    try:
        subprocess.check_call(["git", "-C", "/repo", "worktree", "add", "--detach", "-q", tmp + "/wt", "HEAD"])
        wt = tmp + "/wt"
        n = 0
        for prop, name, path, old, new in M:
            p = os.path.join(wt, path)
            s = open(p).read()
            if s.count(old) != 1:
                print("SKIP (anchor matches %d times): %s-%s" % (s.count(old), prop, name))
                continue
            open(p, "w").write(s.replace(old, new))
            diff = subprocess.check_output(["git", "-C", wt, "diff"]).decode()
            open(os.path.join(out, "%s-%s.patch" % (prop, name)), "w").write(diff)
            subprocess.check_call(["git", "-C", wt, "checkout", "-q", "--", "."])
            n += 1
        print("wrote", n, "mutants")
    finally:
        subprocess.call(["git", "-C", "/repo", "worktree", "remove", "--force", tmp + "/wt"])
        shutil.rmtree(tmp, ignore_errors=True)

if __name__ == "__main__":
    main()
