#!/usr/bin/env bash
# verify_seed.sh <worktree> <demo test filter> [<crate>]  — confirms: suite passes with patch; demo fails with patch; demo passes without
set -u
WT="$1"; FILTER="$2"; CRATE="${3:-}"
cd "$WT" || exit 2
git checkout -q -- . ; git clean -fdq -e _out -e target
git apply _out/patch.diff || { echo "PATCH DOES NOT APPLY"; exit 1; }
if cargo test --workspace --offline >/tmp/vs-suite.log 2>&1; then echo "suite with patch: PASS ($(grep -c '^test .* ok$' /tmp/vs-suite.log) tests ok)"; else echo "suite with patch: FAIL"; grep -E "FAILED|panicked" /tmp/vs-suite.log | head; fi
git apply _out/demo.diff || { echo "DEMO DOES NOT APPLY"; exit 1; }
if cargo test ${CRATE:+-p $CRATE} --offline $FILTER >/tmp/vs-demo1.log 2>&1; then echo "demo with patch: PASSES (bad)"; else echo "demo with patch: fails (good): $(grep -E 'panicked|assert' /tmp/vs-demo1.log | head -2 | tr '\n' ' ' | cut -c1-300)"; fi
git apply -R _out/patch.diff
if cargo test ${CRATE:+-p $CRATE} --offline $FILTER >/tmp/vs-demo2.log 2>&1; then echo "demo without patch: passes (good) ($(grep -E '^test result' /tmp/vs-demo2.log | head -3 | tr '\n' ' '))"; else echo "demo without patch: FAILS (bad)"; fi
git checkout -q -- . ; git clean -fdq -e _out -e target
