#!/usr/bin/env python3
"""Regenerates /verif/MANIFEST.json from the table below (kept next to the checks it describes)."""
import json, os, sys
ROOT = os.path.dirname(os.path.dirname(os.path.abspath(__file__)))

TRUST = ("Trusted base: the minichain simulator (harness/src/chain.rs: bank, staking, distribution, wasm dispatch, "
         "atomic transactions) and the swap/oracle stubs, inside the operating envelope of DESIGN.md section 4; "
         "oracle code in harness/src/props; proptest 1.11 generators seeded from VERIF_SEED.")

# id -> (technique, level text, design ref)
CHECKS = {
 "C01": ("stateful model-based property testing (proptest): generated unbond-heavy histories + structured release-group scenarios, arrival ledger kept from chain events as reference model, metamorphic withdrawal-order permutations and dry-run liveness probes on cloned worlds",
         "Exploration: generated histories and structured multi-batch release scenarios (slashing of unbonding stake, unsolicited transfers, mixed-token batches) run against the real contracts; after every step released claims must be covered by the hub balance; every withdrawal must pay exactly the recorded share once; every release group is bounded above by what the harness's own ledger saw arrive and below by the dust bound; claimants' payouts must not depend on withdrawal order (permutations on cloned worlds).",
         "DESIGN.md 5 C01"),
 "C02": ("stateful property-based testing (proptest): generated full-system histories, invariant + exact book-keeping equations against the simulated chain after every step",
         "Exploration: thousands of generated histories (configurations x operation sequences incl. slashing, registry changes, reward rounds) run against the real contracts; every step checks booked <= delegated, delegate messages sum to the payment and hit only registered validators, exact book deltas and an unchanged hub liquid balance. A verdict of 'held' means no counterexample in the explored histories, not absence.",
         "DESIGN.md 5 C02"),
 "C03": ("stateful property-based testing (proptest): generated histories, exact rational recomputation (256-bit) of every rate and mint/convert/undelegation from public queries",
         "Exploration: every step of every generated history is re-priced with independent 256-bit arithmetic from State/TokenInfo/CurrentBatch/AllHistory observations; malformed bonds must fail.",
         "DESIGN.md 5 C03"),
 "C04": ("stateful property-based testing (proptest): generated histories around passive holders, monotonicity invariant between consecutive observations (exact Decimal comparison)",
         "Exploration: in every generated history the reported rate of each token and floor(balance x rate) of every holder whose balance did not move are compared across every non-slashing step; BondRewards must raise the stSei rate and mint nothing.",
         "DESIGN.md 5 C04"),
 "C05": ("property-based testing (proptest): generated slashed states x four fee paths x fee/threshold grid, results bounded by exact no-fee and maximal-fee recomputation and by the post-state peg gap",
         "Exploration: thousands of short generated histories reach slashed states and run bond / unbond / convert (both directions) with amounts from 1 unit to the whole pool; the credited result must lie between the exact maximal-fee and no-fee results, equal the no-fee result at or above the threshold, and never leave backing above claims by more than 2 units (also when the claims dropped to zero); a structured scenario exits with exactly the whole supply of large pools slashed to low rates.",
         "DESIGN.md 5 C05"),
 "C06": ("stateful property-based testing with injected slashing faults (proptest): exact pro-rata reference for the recognised totals and for every release group, CheckSlashing idempotence probes on cloned worlds",
         "Exploration with fault injection: slashing events of any size on any validator (bonded and unbonding stake) are injected into generated histories; the State view must equal the exact pro-rata split of the surviving delegations (within 2 units), never rise, CheckSlashing must book exactly that view and be idempotent, and every release group must pay each (batch, token) its pro-rata share of the coins that arrived, measured against the checker's own ledger of the hub's accounted-for balance (which the hub's prev_hub_balance must equal); a successful withdrawal must leave no matured batch unreleased; contract migrations to the same code are part of the histories.",
         "DESIGN.md 5 C06"),
 "C07": ("stateful model-based property testing (proptest): reference claims ledger compared with UnbondRequests / CurrentBatch / AllHistory after every step; foreign Receive hooks must be rejected",
         "Exploration: many users unbond both tokens via Send and SendFrom across epoch boundaries in generated histories; a reference ledger of (user, batch) claims must equal the hub's reports after every step, batch totals must equal the sum of claims (+ paid), entries may vanish only through their owner's withdrawal of a released batch, and hooks from anything but the two registered tokens must fail; the credited claim is the whole amount at or above the threshold and never below amount x (1 - fee).",
         "DESIGN.md 5 C07"),
 "C08": ("stateful property-based testing (proptest) with boundary-relative clock generation: temporal predicates over the executed-message trace and AllHistory snapshots",
         "Exploration: generated period configurations (incl. 1 s) and histories whose clock moves land on -1/0/+1 s of the epoch and unbonding boundaries; release/payment only after the full unbonding period, undelegation only in an unbond strictly after the epoch period (and not skipped), consecutive batch ids, forward-only counters, released entries frozen, undelegated amount equal to the entry's valuation.",
         "DESIGN.md 5 C08"),
 "C09": ("stateful property-based testing (proptest) with must-succeed probes on cloned worlds and differential fault injection (swap/oracle stubs failing or returning garbage)",
         "Exploration with fault injection: at sampled states of generated histories (slashed, dust, drained) every holder x token x {1, half, all} is taken through the whole exit (unbond, epoch+1, undelegating unbond, unbonding period, withdraw) on a cloned world and must succeed; every user-path operation is re-executed with failing / garbage swap and oracle stubs and must give the identical result and state; withdrawals of the history itself must pay released claims in full and, while no unbonding stake was slashed, matured claims at the value they were undelegated for.",
         "DESIGN.md 5 C09"),
 "C13": ("stateful property-based testing (proptest): generated histories with registry operations, chain-state equations on the removal transaction (redelegation events, delegations, books)",
         "Exploration: validator removals (registered, unregistered, last; with pending rewards, in-flight batches, blocked redelegations) and re-additions are placed at arbitrary points of generated histories; a successful removal must leave nothing on the removed validator, redelegate exactly its stake to validators registered after the removal, change total delegated only by the rewards re-bonded, and later bonds must avoid unregistered validators.",
         "DESIGN.md 5 C13"),
 "C17": ("property-based testing (proptest) of direct dispatcher inputs: exact rational share (512-bit) with a derived tolerance, conservation and floor equations, zero-send detection via the simulated bank",
         "Exploration: 100 000 (quick) generated combinations of dispatcher balances, bonded pair, oracle price over 18 orders of magnitude and keeper rate are run through SwapToRewardDenom and DispatchRewards as one executed transaction each; the post-swap stSei share is compared with the exact rational share, the keeper must get exactly floor(balance x rate), the remainder must reach the reward contract (then index update) and the hub (BondRewards), nothing may stay, and no zero-coin bank send may be emitted. The zero-send defect found is listed as known finding.",
         "DESIGN.md 5 C17"),
 "C19": ("stateful property-based testing (proptest): generated full-system histories + structured reward-round scenarios, end-state accounting equations across four contracts and the simulated chain on every index update",
         "Exploration: every UpdateGlobalIndex (by the updater or via validator removal) in generated histories must succeed while stake is bonded, withdraw every validator's rewards, leave the dispatcher empty, book exactly the re-bonded coins in the stSei pool, change no token balance, no unbonder claim and not the hub's liquid balance, pay the keeper floor(balance x rate), split by bonded stake (C17 oracle) and raise the holders' total accrual by the delivered amount within dust. The zero-send failure is listed as known finding.",
         "DESIGN.md 5 C19"),
 "C14": ("stateful property-based testing (proptest): reward-focused generated histories + structured reward rounds, solvency inequalities and exact claim arithmetic (256-bit) after every step",
         "Exploration: in generated histories with mints, burns, transfers, allowance operations, claims and reward deliveries of all magnitudes (full path and direct deposits, also while nobody holds bSei) the sum of all holders' claimable rewards must stay <= recorded balance <= actual balance, a claim must succeed iff >= 1 unit accrued and pay exactly the integer part keeping the fraction, stranded dust must stay within (#updates + #holders + 1) and claimed <= delivered.",
         "DESIGN.md 5 C14"),
 "C15": ("metamorphic property-based testing (proptest): each generated scenario is executed as given, with other holders' operations permuted, and with the observed stake split over several accounts; relations between the executions are the oracle",
         "Exploration of a relational property: generated reward-window scenarios are run several times against the real contracts; per update the observed holder's accrual must equal balance x indexed / supply within one unit, must not depend on the order of other holders' operations, must be additive under account splitting (within k units) and must neither leave with transferred / sent / unbonded / burnt tokens nor be earned by tokens acquired later; what each update has to index comes from the checker's own ledger, the AccruedRewards query is cross-checked wherever an accrual is read, and the owner may re-submit the reward contract's configuration inside a window.",
         "DESIGN.md 5 C15"),
 "C16": ("stateful property-based testing (proptest): two-contract mirror equality (cw20 balances vs reward-contract holder balances) after every step of generated bSei operation sequences",
         "Exploration: after every step of generated histories rich in bSei transfers, sends, allowance operations, allowance burns and hub-mediated burns, the reward contract's recorded balance of every address either contract enumerates must equal its bSei balance and the totals must agree.",
         "DESIGN.md 5 C16"),
 "C12": ("property-based testing (proptest) of the two pure distribution functions over generated raw inputs: postcondition predicates (conservation, caps, floors) and a 15 s termination watchdog confirmed by a re-run; plus generated system histories whose executed Delegate messages are held to the same oracle over the whole registered set",
         "Exploration: millions of generated (validator list, amount) inputs - zeros, ties, near-even, tiny, up to 2^100, sorted either way or unsorted, lists up to 60 - are fed to calculate_delegations / calculate_undelegations; the plan must distribute / remove exactly the amount, respect the even-share cap and floor, fail exactly for an empty list or an amount above the total, and return. One case in 600 is a full-system history: the registry's GetValidatorsForDelegation answer must be the stored registered set with the hub's real delegations, and the Delegate messages of every bond must satisfy the plan oracle over that whole set.",
         "DESIGN.md 5 C12"),
 "C18": ("model-based property testing (proptest): reference cw20 ledger (balances, supply, allowances with expiry) against both token contracts over generated instantiate messages and operation sequences",
         "Exploration: generated instantiate messages (repeated addresses, zero amounts, invalid metadata) and sequences of all cw20 operations by arbitrary principals with amounts around balances / allowances and expirations crossed by clock moves; whatever the reference ledger forbids must be rejected, an accepted operation must have exactly the ledger's effect, the enumerated balances must sum to the total supply in every state, the minter must stay the hub and every stSei burn / bSei allowance burn must carry a hub CheckSlashing.",
         "DESIGN.md 5 C18"),
 "C10": ("enumeration + property-based testing (proptest): every privileged execute variant x sender class x state kind with generated payloads must be rejected for non-principals; SetOwner / AcceptOwnership sequences against a reference (owner, nominee) model",
         "Exploration (full enumeration of 40 privileged variants x 16 sender classes x 6 state kinds incl. staged (partially wired) deployments x payloads, plus generated triples and ownership sequences): a privileged message from any sender class other than its designated principal must fail and change nothing; ownership queries must follow the reference model, only the owner nominates, only the nominee accepts, an ex-owner has no power, token addresses cannot be re-set. A vacuity guard counts that each variant's principal gets past the sender check.",
         "DESIGN.md 5 C10"),
 "C11": ("enumeration + metamorphic property-based testing (proptest): every hub message x sender class while paused must fail without effect; legacy wait-list entries injected in the old storage layout; history vs history-with-inserted-pause-cycle equality",
         "Exploration (enumeration of 17 hub message variants x 16 sender classes x 4 state kinds, generated legacy wait lists and migration limits, generated metamorphic pairs): while paused everything but the owner's UpdateParams and the migration fails and changes nothing, queries answer as before, the hub cannot be unpaused while legacy entries remain and migration loses none; inserting pause / blocked attempts / unpause anywhere in a history changes neither later results nor the final state.",
         "DESIGN.md 5 C11"),
 "C20": ("model-based property testing (proptest): reference merge model of every Parameters / Config query under generated instantiate parameters and update-message sequences over the four owned contracts",
         "Exploration: generated instantiate rates (in and out of range) and sequences of update messages with every present / absent field combination, out-of-range rates and malformed addresses, mostly by the owner; the reference model decides acceptance exactly, every query must equal the model after every message, rates must stay <= 1, the staking / stSei reward denominations must never change, and a rejected message must change nothing.",
         "DESIGN.md 5 C20"),
}

PENDING = {}

def main():
    props = [json.loads(l) for l in open(os.path.join(ROOT, "properties.jsonl"))]
    checks, na = [], []
    for p in props:
        pid = p["id"]
        if pid in CHECKS:
            tech, text, ref = CHECKS[pid]
            checks.append({
                "property_id": pid,
                "quick_cmd": f"./check {pid} quick",
                "thorough_cmd": f"./check {pid} thorough",
                "evidence_file": f"evidence/{pid}.json",
                "replay_cmd_template": f"./check {pid} --replay {{path}}",
                "engine": "krpv",
                "level_claimed": {"category": "exploration", "text": text, "design_ref": ref},
                "level_note": TRUST,
                "technique": tech,
            })
        else:
            na.append({"property_id": pid, "reason": PENDING.get(pid, "check not built yet (work in progress; the design in DESIGN.md section 5 applies generated-input search to it, nothing prevents the technique)")})
    m = {
        "version": 1,
        "setup_cmd": "./check --build",
        "hooks": {
            "guard": "--cfg krp_verif",
            "enable": "none needed: the harness uses only public entry points, message types and the two public registry functions; no source hooks exist, so checks build /repo unchanged",
            "baseline_off_cmd": "cd /repo && cargo test --workspace --no-fail-fast --offline",
            "source_commits": [],
            "add_only": True,
        },
        "engines": [
            {"name": "krpv", "path": "harness", "serves_properties": sorted(CHECKS.keys()),
             "kind_free_text": "Rust binary: minichain simulator executing the real contract entry points + proptest-driven generators, per-property oracles, shrinking, JSON replay files, evidence writer"},
            {"name": "krpv-fuzz", "path": "harness/fuzz", "serves_properties": ["C01","C02","C03","C04","C05","C06","C07","C08","C09","C12","C13","C14","C16","C17","C18","C19"],
             "kind_free_text": "cargo-fuzz / libFuzzer targets (hist, dist, dispatch, token): bytes -> case through total decoders, the same oracles run inside the target; used by the thorough tier (harness/fuzz/run_fuzz.sh), artifacts are re-checked on the production-like build before being reported"},
        ],
        "checks": checks,
        "not_applicable": na,
        "notes": "Every check is `./check <ID> quick|thorough`; it rebuilds the harness (path dependencies on /repo) and runs the replay tier (known findings, fixed findings, hand-kept regressions) before the generated exploration. Exit 2 = infrastructure problem, never a violation.",
    }
    json.dump(m, open(os.path.join(ROOT, "MANIFEST.json"), "w"), indent=1)
    print("MANIFEST.json:", len(checks), "checks,", len(na), "not claimed")

if __name__ == "__main__":
    main()
