#!/usr/bin/env bash
# tools/run_all.sh [quick|thorough|full] — runs every registered check in order and prints one status line per property
# (full = the registered thorough command, i.e. proptest thorough followed by the libFuzzer campaign where one exists)
cd "$(dirname "$0")/.."
TIER="${1:-quick}"
./check --build || exit 2
rc_all=0
for id in $(python3 -c "import json;print(' '.join(c['property_id'] for c in json.load(open('MANIFEST.json'))['checks']))"); do
  start=$(date +%s.%N)
  if [ "$TIER" = full ]; then out="$(./check "$id" thorough 2>&1)"; rc=$?; else out="$(./harness/target/release/krpv "$id" "$TIER" 2>&1)"; rc=$?; fi
  dur=$(python3 -c "import time,sys;print('%.1f'%(time.time()-float(sys.argv[1])))" "$start")
  line="$(echo "$out" | grep -E "^$id (quick|thorough):|^fuzz $id" | tr '\n' ' ')"
  kf="$(echo "$out" | grep -c '^KNOWN-FINDING')"
  echo "rc=$rc ${dur}s known=$kf | $line"
  if [ $rc -ne 0 ]; then rc_all=1; echo "$out" | grep -E "^violation|^VIOLATION|INFRA" | head -5; fi
done
exit $rc_all
