#!/usr/bin/env python3
"""ingest_seed.py <worktree> <ID> <name> <round> <demo cmd tail> <needs_to_manifest>
Copies <worktree>/_out/{patch.diff,demo.diff,README.md} to seeded/<ID>-<name>/ and writes meta.json.
Run only after tools/verify_seed.sh confirmed suite-green / demo-fails / demo-passes."""
import sys, os, json, shutil
wt, pid, name, rnd, demo, needs = sys.argv[1:7]
d = os.path.join(os.path.dirname(os.path.dirname(os.path.abspath(__file__))), "seeded", f"{pid}-{name}")
os.makedirs(d, exist_ok=True)
for f in ("patch.diff", "demo.diff", "README.md"):
    shutil.copy(os.path.join(wt, "_out", f), os.path.join(d, f))
meta = {
    "property": pid, "name": name, "breaks": pid, "round": int(rnd),
    "needs_to_manifest": needs,
    "origin": "independent sub-agent given only the property text (plus a round-specific requirement: round 4 - hinge on a boundary, pagination / key order, a cross-contract interaction, leftover state or one account in two roles; round 5 - be hard for a randomised tester: magnitude, exact numeric coincidence, ordering of four or more operations, configuration corner, or error path; round 6 - sit in a query handler or its pagination, shared library code under packages, an instantiate or migrate entry point, or the order / content of returned sub-messages; round 8 - an everyday slip: a swallowed error, a rounding direction, two look-alike quantities confused, or read-modify-write ordering) and a scratch worktree",
    "verified": {
        "suite_with_patch": "cargo test --workspace --offline: 142 passed",
        "demo_with_patch": f"cargo test {demo}: fails",
        "demo_without_patch": f"cargo test {demo}: passes",
    },
    "detected_by": "pending selftest",
}
json.dump(meta, open(os.path.join(d, "meta.json"), "w"), indent=1)
print("ingested", d)
