#!/usr/bin/env bash
# Sensitivity suite (DESIGN.md 3.8): every patch in mutants/ (and seeded/*/patch.diff) is applied to a scratch copy
# of /repo, the quick check of the property it targets is run against it and must report a VIOLATION.
# Usage: ./selftest.sh [--with-tests] [--tier quick|thorough] [pattern ...]     (patterns match patch file names)
# Nothing is left behind: the scratch copy and its build output are removed at the end.
set -u
cd "$(dirname "$0")"
ROOT="$(pwd)"
WITH_TESTS=0
TIER=quick
PATS=()
while [ $# -gt 0 ]; do
  case "$1" in
    --with-tests) WITH_TESTS=1;;
    --tier) shift; TIER="$1";;
    *) PATS+=("$1");;
  esac
  shift
done
SCRATCH="${SELFTEST_SCRATCH:-/tmp/krp-selftest-$$}"
trap 'rm -rf "$SCRATCH"' EXIT
mkdir -p "$SCRATCH/verif"
echo "scratch: $SCRATCH"
rsync -a --exclude target --exclude .git /repo/ "$SCRATCH/repo/"
( cd "$SCRATCH/repo" && git init -q && git add -A && git -c user.email=x@x -c user.name=x commit -qm base )
rsync -a --exclude target "$ROOT/harness" "$SCRATCH/verif/"
cp -r "$ROOT/known_findings.json" "$ROOT/regress" "$ROOT/properties.jsonl" "$SCRATCH/verif/"
sed -i "s#\"/repo/#\"$SCRATCH/repo/#g" "$SCRATCH/verif/harness/Cargo.toml"
export CARGO_NET_OFFLINE=true VERIF_ROOT="$SCRATCH/verif"
build() { ( cd "$SCRATCH/verif/harness" && cargo build --release --offline >"$SCRATCH/build.log" 2>&1 ); }
echo "building baseline ..."
build || { echo "baseline build failed"; tail -20 "$SCRATCH/build.log"; exit 2; }
PATCHES=()
for f in "$ROOT"/mutants/*.patch "$ROOT"/seeded/*/patch.diff; do
  [ -f "$f" ] || continue
  if [ ${#PATS[@]} -gt 0 ]; then
    ok=0; for p in "${PATS[@]}"; do case "$f" in *$p*) ok=1;; esac; done
    [ $ok -eq 1 ] || continue
  fi
  PATCHES+=("$f")
done
pass=0; fail=0
for f in "${PATCHES[@]}"; do
  case "$f" in
    */seeded/*) name="seeded/$(basename "$(dirname "$f")")"; id="$(python3 -c "import json,sys;print(json.load(open(sys.argv[1]))['property'])" "$(dirname "$f")/meta.json" 2>/dev/null || echo "$(basename "$(dirname "$f")" | cut -d- -f1)")";;
    *) name="$(basename "$f" .patch)"; id="${name%%-*}";;
  esac
  if ! git -C "$SCRATCH/repo" apply "$f" 2>"$SCRATCH/apply.err"; then
    echo "$name: PATCH DOES NOT APPLY"; cat "$SCRATCH/apply.err"; fail=$((fail+1)); continue
  fi
  tests="-"
  if [ $WITH_TESTS -eq 1 ]; then
    if ( cd "$SCRATCH/repo" && cargo test --workspace --offline >"$SCRATCH/test.log" 2>&1 ); then tests="tests-pass"; else tests="TESTS-FAIL"; fi
  fi
  if ! build; then
    echo "$name: DOES NOT COMPILE ($tests)"; grep -E "^error" -A 6 "$SCRATCH/build.log" | head -12
    verdict="does-not-compile"; fail=$((fail+1))
  else
    rm -rf "$SCRATCH/verif/replays"
    start=$(date +%s)
    out="$("$SCRATCH/verif/harness/target/release/krpv" "$id" "$TIER" 2>&1)"; rc=$?
    dur=$(( $(date +%s) - start ))
    sig="$(echo "$out" | grep -m1 '^violation ' | cut -c1-160)"
    if [ $rc -eq 1 ] && echo "$out" | grep -q "^VIOLATION property=$id "; then
      verdict="DETECTED"; pass=$((pass+1))
      # keep the shrunk counterexample as a hand-kept regression: it must pass on the unchanged tree from now on
      rp="$(echo "$out" | grep -m1 "^VIOLATION property=$id " | sed 's/.*replay=//')"
      if [ "$TIER" = quick ] && [ -f "$rp" ]; then
        python3 - "$rp" "$ROOT/regress/$id-pass-$(echo "$name" | tr '/' '-').json" "$name" <<'PY'
import json, sys
src, dst, name = sys.argv[1:4]
r = json.load(open(src))
r["detail"] = "counterexample found on the tree with " + name + " applied (must pass on the unchanged tree): " + r.get("detail", "")[:300]
r["expect"] = "pass"
json.dump(r, open(dst, "w"), indent=1)
PY
      fi
    else
      verdict="MISSED(rc=$rc)"; fail=$((fail+1))
    fi
    echo "$name: $verdict by $id $TIER in ${dur}s ($tests) $sig"
  fi
  # results tables are updated in place (one line per patch)
  case "$name" in seeded/*) RF="$ROOT/seeded/RESULTS.txt";; *) RF="$ROOT/mutants/RESULTS.txt";; esac
  python3 - "$RF" "$name" "$verdict" "$tests" "$id" "$TIER" "${sig:-}" <<'PY'
import sys, os
rf, name, verdict, tests, pid, tier, sig = sys.argv[1:8]
lines = []
if os.path.exists(rf):
    lines = [l.rstrip("\n") for l in open(rf) if l.strip() and not l.startswith(name + " ")]
old_tests = "-"
if tests == "-" and os.path.exists(rf):
    for l in open(rf):
        if l.startswith(name + " "):
            parts = l.split()
            if len(parts) >= 3: old_tests = parts[2]
lines.append("%s %s %s %s-%s %s" % (name, verdict, tests if tests != "-" else old_tests, pid, tier, sig.replace("\n", " ")[:140]))
lines.sort()
open(rf, "w").write("\n".join(lines) + "\n")
PY
  git -C "$SCRATCH/repo" checkout -q -- . ; git -C "$SCRATCH/repo" clean -fdq -e target
done
echo "detected $pass, not detected $fail"
[ $fail -eq 0 ]
