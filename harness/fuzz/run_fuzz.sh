#!/usr/bin/env bash
# run_fuzz.sh <ID> — thorough tier: coverage-guided (libFuzzer) campaign for one property with the oracle inside the
# target. 16 independent processes (seeds VERIF_SEED .. VERIF_SEED+15), fixed number of executions each, fresh corpus
# seeded with deterministic random inputs plus the empty input. Any crash artifact is re-checked through the strict
# replay path of the production-like build before it is reported.
# exit: 0 nothing found | 1 violation (VIOLATION line printed) | 2 infrastructure problem
set -u
ID="$1"
HERE="$(cd "$(dirname "$0")" && pwd)"
ROOT="$(cd "$HERE/../.." && pwd)"
SEED="${VERIF_SEED:-20261002}"
case "$ID" in
  C01|C02|C03|C04|C05|C06|C07|C08|C09|C13|C14|C16|C19) TARGET=hist; RUNS="${FUZZ_RUNS:-6000}";;
  C12) TARGET=dist; RUNS="${FUZZ_RUNS:-400000}";;
  C17) TARGET=dispatch; RUNS="${FUZZ_RUNS:-40000}";;
  C18) TARGET=token; RUNS="${FUZZ_RUNS:-20000}";;
  *) echo "fuzz: no coverage-guided target for $ID (decided by the proptest exploration only)"; exit 0;;
esac
export CARGO_NET_OFFLINE=true VERIF_ROOT="$ROOT" KRPV_FUZZ_PROP="$ID"
cd "$HERE/.." || exit 2
if ! cargo +nightly fuzz build -s none "$TARGET" >"$HERE/build.log" 2>&1; then
  echo "INFRASTRUCTURE: fuzz build failed (harness/fuzz/build.log)" >&2; tail -5 "$HERE/build.log" >&2; exit 2
fi
BIN="$HERE/target/x86_64-unknown-linux-gnu/release/$TARGET"
[ -x "$BIN" ] || { echo "INFRASTRUCTURE: fuzz binary missing" >&2; exit 2; }
WORK="$HERE/work/$ID"; rm -rf "$WORK"; mkdir -p "$WORK/corpus" "$WORK/logs"
python3 - "$WORK/corpus" "$SEED" <<'PY'
import sys, random
d, seed = sys.argv[1], int(sys.argv[2])
r = random.Random(seed)
open(d + "/empty", "wb").write(b"")
for i in range(48):
    n = r.choice([16, 48, 96, 200, 400, 700])
    open(d + "/seed%02d" % i, "wb").write(bytes(r.randrange(256) for _ in range(n)))
PY
N=16
start=$(date +%s)
pids=()
for i in $(seq 0 $((N-1))); do
  mkdir -p "$WORK/art$i"
  "$BIN" "$WORK/corpus" -runs="$RUNS" -seed=$((SEED + i + 1)) -len_control=0 -max_len=768 -timeout=120 -rss_limit_mb=6000 \
      -artifact_prefix="$WORK/art$i/" -print_final_stats=1 >"$WORK/logs/$i.log" 2>&1 &
  pids+=($!)
done
crashed=0
for p in "${pids[@]}"; do wait "$p" || crashed=1; done
dur=$(( $(date +%s) - start ))
execs=$(grep -h "stat::number_of_executed_units" "$WORK"/logs/*.log | awk '{s+=$2} END {print s+0}')
corpus=$(ls "$WORK/corpus" | wc -l)
rc=0
if [ $crashed -ne 0 ]; then
  rc=0
  for rp in $(grep -h "^FUZZ-REPLAY " "$WORK"/logs/*.log | awk '{print $2}' | sort -u); do
    # only a failure on the production-like build counts
    if "$ROOT/harness/target/release/krpv" "$ID" --replay "$rp" >"$WORK/replay.out" 2>&1; then
      echo "fuzz: artifact $rp does not reproduce on the production-like build (ignored)"
    else
      grep -E "^violation" "$WORK/replay.out" | head -3
      echo "VIOLATION property=$ID replay=$rp"
      rc=1; break
    fi
  done
  if [ $rc -eq 0 ] && ! grep -qh "^FUZZ-REPLAY " "$WORK"/logs/*.log; then
    # a crash that is not an oracle failure: timeout / OOM / harness problem -> inconclusive, never a violation
    echo "INFRASTRUCTURE: fuzz process ended abnormally without an oracle failure (see $WORK/logs)" >&2
    grep -h -E "ERROR|SUMMARY|panicked|INFRASTRUCTURE" "$WORK"/logs/*.log | head -5 >&2
    rc=2
  fi
fi
echo "fuzz $ID ($TARGET): $execs executions in ${dur}s over $N processes, corpus $corpus -> $( [ $rc -eq 0 ] && echo held || echo rc=$rc )"
# record the campaign in the evidence file written by the proptest phase
python3 - "$ROOT/evidence/$ID.json" "$TARGET" "$execs" "$corpus" "$dur" "$RUNS" "$N" <<'PY'
import json, sys
p, target, execs, corpus, dur, runs, n = sys.argv[1:]
try:
    e = json.load(open(p))
except Exception:
    sys.exit(0)
e["coverage"]["fuzz"] = {"engine": "libFuzzer (cargo-fuzz)", "target": target, "executions": int(execs), "corpus_files": int(corpus),
                         "processes": int(n), "runs_per_process": int(runs), "wall_s": int(dur)}
e["wall_s"] = e.get("wall_s", 0) + int(dur)
json.dump(e, open(p, "w"), indent=1)
PY
[ $rc -eq 0 ] && rm -rf "$WORK"
exit $rc
