#![no_main]
//! libFuzzer target for the history-family properties: bytes -> (configuration, operation sequence) through the
//! total decoder, the property's oracle runs inside the target. The property is chosen by KRPV_FUZZ_PROP.
use libfuzzer_sys::fuzz_target;
use std::sync::OnceLock;

static PROP: OnceLock<String> = OnceLock::new();

fuzz_target!(|data: &[u8]| {
    let id = PROP.get_or_init(|| {
        krpv::runner::install_panic_hook();
        std::env::var("KRPV_FUZZ_PROP").unwrap_or_else(|_| "C01".to_string())
    });
    let h = krpv::bytes::decode_history(data);
    if let Some((v, path)) = krpv::props::fuzz_history(id, &h) {
        println!("violation {}: {}", v.signature, v.detail);
        println!("FUZZ-REPLAY {}", path.display());
        std::process::abort();
    }
});
