#![no_main]
use libfuzzer_sys::fuzz_target;
fuzz_target!(|data: &[u8]| {
    let c = krpv::bytes::decode_c17(data);
    let p = krpv::props::c17::C17;
    if let Some(v) = krpv::runner::fuzz_one(&p, &c) {
        let path = krpv::runner::save_fuzz_replay(&p, &c, &v);
        println!("violation {}: {}", v.signature, v.detail);
        println!("FUZZ-REPLAY {}", path.display());
        std::process::abort();
    }
});
