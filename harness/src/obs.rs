//! Public-API observation snapshot: everything here comes from queries, bank and staking state.
use crate::chain::*;
use crate::deploy::*;
use basset::hub::{
    AllHistoryResponse, ConfigResponse as HubConfig, CurrentBatchResponse, Parameters,
    QueryMsg as HubQuery, StateResponse, UnbondHistoryResponse, UnbondRequestsResponse,
};
use basset::reward::{
    AccruedRewardsResponse, HolderResponse, HoldersResponse, QueryMsg as RewardQuery,
    StateResponse as RewardState,
};
use cw20::{AllAccountsResponse, BalanceResponse, Cw20QueryMsg, TokenInfoResponse};
use std::collections::BTreeMap;

#[derive(Clone, Debug, PartialEq)]
pub struct TokenObs {
    pub supply: u128,
    pub balances: BTreeMap<String, u128>,
    /// every account the token enumerates (AllAccounts, paginated)
    pub accounts: Vec<String>,
}

#[derive(Clone, Debug, PartialEq)]
pub struct RewardObs {
    pub state: RewardState,
    pub holders: BTreeMap<String, HolderResponse>,
    pub accrued: BTreeMap<String, u128>,
    /// addresses the reward contract enumerates (Holders, paginated)
    pub listed: Vec<String>,
}

#[derive(Clone, Debug, PartialEq)]
pub struct Obs {
    pub time: u64,
    pub state: StateResponse,
    pub batch: CurrentBatchResponse,
    pub params: Parameters,
    pub hub_config: HubConfig,
    pub history: Vec<UnbondHistoryResponse>,
    pub requests: BTreeMap<String, Vec<(u64, u128, u128)>>,
    pub bsei: TokenObs,
    pub stsei: TokenObs,
    pub reward: RewardObs,
    /// (address, denom) -> amount for the principals and the four coins
    pub bank: BTreeMap<(String, String), u128>,
    /// hub delegations per validator
    pub delegations: BTreeMap<String, u128>,
    pub delegated: u128,
    /// bSei + stSei pool totals as *stored* by the hub (raw storage, not the re-synced State query view)
    pub stored_books: u128,
    /// registered validators as stored by the registry (sorted by address)
    pub registry: Vec<String>,
    /// the registry's GetValidatorsForDelegation answer, in the order given
    pub registry_query: Vec<(String, u128)>,
}

/// A public query failed: reported by the runner as a violation `<ID>/query-failed/<name>` of the property
/// being checked (every listed property is stated over query results).
pub fn qfail<T>(name: &str, e: String) -> T {
    panic!("QUERYFAIL {}: {}", name.replace(' ', "_"), e)
}

pub fn hub_state(w: &World) -> StateResponse {
    w.query(HUB, &HubQuery::State {}).unwrap_or_else(|e| qfail("hub State query", e))
}
pub fn hub_batch(w: &World) -> CurrentBatchResponse {
    w.query(HUB, &HubQuery::CurrentBatch {}).unwrap_or_else(|e| qfail("hub CurrentBatch query", e))
}
pub fn hub_params(w: &World) -> Parameters {
    w.query(HUB, &HubQuery::Parameters {}).unwrap_or_else(|e| qfail("hub Parameters query", e))
}
pub fn hub_requests(w: &World, a: &str) -> Vec<(u64, u128, u128)> {
    let r: UnbondRequestsResponse =
        w.query(HUB, &HubQuery::UnbondRequests { address: a.to_string() }).unwrap_or_else(|e| qfail("hub UnbondRequests query", e));
    r.requests.into_iter().map(|(b, x, y)| (b, x.u128(), y.u128())).collect()
}
/// Full history through the paginated AllHistory query (start_from is exclusive).
pub fn hub_history(w: &World) -> Vec<UnbondHistoryResponse> {
    let mut out: Vec<UnbondHistoryResponse> = vec![];
    let mut start: Option<u64> = None;
    loop {
        let r: AllHistoryResponse =
            w.query(HUB, &HubQuery::AllHistory { start_from: start, limit: Some(100) }).unwrap_or_else(|e| qfail("hub AllHistory", e));
        let n = r.history.len();
        if n == 0 {
            break;
        }
        start = Some(r.history.last().unwrap().batch_id);
        out.extend(r.history);
        if n < 100 {
            break;
        }
    }
    out
}
pub fn supply(w: &World, t: &str) -> u128 {
    let r: TokenInfoResponse = w.query(t, &Cw20QueryMsg::TokenInfo {}).unwrap_or_else(|e| qfail("TokenInfo", e));
    r.total_supply.u128()
}
pub fn bal(w: &World, t: &str, a: &str) -> u128 {
    let r: BalanceResponse = w.query(t, &Cw20QueryMsg::Balance { address: a.into() }).unwrap_or_else(|e| qfail("Balance", e));
    r.balance.u128()
}
pub fn all_accounts(w: &World, t: &str) -> Vec<String> {
    let mut out: Vec<String> = vec![];
    let mut start: Option<String> = None;
    loop {
        let r: AllAccountsResponse =
            w.query(t, &Cw20QueryMsg::AllAccounts { start_after: start.clone(), limit: Some(30) }).unwrap_or_else(|e| qfail("AllAccounts", e));
        let n = r.accounts.len();
        if n == 0 {
            break;
        }
        start = Some(r.accounts.last().unwrap().clone());
        out.extend(r.accounts);
        if n < 30 {
            break;
        }
    }
    out
}
pub fn token_obs(w: &World, t: &str, who: &[String]) -> TokenObs {
    let accounts = all_accounts(w, t);
    let mut balances = BTreeMap::new();
    for a in who.iter().chain(accounts.iter()) {
        if !balances.contains_key(a) {
            balances.insert(a.clone(), bal(w, t, a));
        }
    }
    TokenObs { supply: supply(w, t), balances, accounts }
}
pub fn reward_state(w: &World) -> RewardState {
    w.query(REWARD, &RewardQuery::State {}).unwrap_or_else(|e| qfail("reward State", e))
}
pub fn reward_holder(w: &World, a: &str) -> HolderResponse {
    w.query(REWARD, &RewardQuery::Holder { address: a.to_string() }).unwrap_or_else(|e| qfail("reward Holder", e))
}
pub fn reward_accrued(w: &World, a: &str) -> u128 {
    let r: AccruedRewardsResponse =
        w.query(REWARD, &RewardQuery::AccruedRewards { address: a.to_string() }).unwrap_or_else(|e| qfail("reward AccruedRewards", e));
    r.rewards.u128()
}
pub fn reward_listed(w: &World) -> Vec<String> {
    let mut out: Vec<String> = vec![];
    let mut start: Option<String> = None;
    loop {
        let r: HoldersResponse =
            w.query(REWARD, &RewardQuery::Holders { start_after: start.clone(), limit: Some(30) }).unwrap_or_else(|e| qfail("Holders", e));
        let n = r.holders.len();
        if n == 0 {
            break;
        }
        start = Some(r.holders.last().unwrap().address.clone());
        out.extend(r.holders.into_iter().map(|h| h.address));
        if n < 30 {
            break;
        }
    }
    out
}
pub fn reward_obs(w: &World, who: &[String]) -> RewardObs {
    let listed = reward_listed(w);
    let mut holders = BTreeMap::new();
    let mut accrued = BTreeMap::new();
    for a in who.iter().chain(listed.iter()) {
        if !holders.contains_key(a) {
            holders.insert(a.clone(), reward_holder(w, a));
            accrued.insert(a.clone(), reward_accrued(w, a));
        }
    }
    RewardObs { state: reward_state(w), holders, accrued, listed }
}
/// The hub's stored pool totals (what later transactions and sibling contracts start from).
pub fn hub_stored_books(w: &World) -> u128 {
    match w.contracts.get(HUB) {
        Some((_, store)) => match basset_sei_hub::state::STATE.may_load(store) {
            Ok(Some(st)) => st.total_bond_bsei_amount.u128() + st.total_bond_stsei_amount.u128(),
            _ => 0,
        },
        None => 0,
    }
}
/// The registered validators as *stored* by the registry (read from its storage, not through its query).
pub fn registry_stored(w: &World) -> Vec<String> {
    let store = &w.contracts.get(REG).unwrap_or_else(|| qfail("registry storage", "no registry".into())).1;
    let mut v: Vec<String> = basset_sei_validators_registry::registry::REGISTRY
        .range(store, None, None, cosmwasm_std::Order::Ascending)
        .map(|r| r.unwrap_or_else(|e| qfail("registry storage", e.to_string())).1.address)
        .collect();
    v.sort();
    v
}
/// The answer of the registry's GetValidatorsForDelegation query, in the order given: (validator, delegation).
pub fn registry_query(w: &World) -> Vec<(String, u128)> {
    let r: Vec<basset_sei_validators_registry::registry::ValidatorResponse> = w
        .query(REG, &basset_sei_validators_registry::msg::QueryMsg::GetValidatorsForDelegation {})
        .unwrap_or_else(|e| qfail("registry query", e));
    r.into_iter().map(|x| (x.address, x.total_delegated.u128())).collect()
}
pub fn registry_list(w: &World) -> Vec<String> {
    let r: Vec<basset_sei_validators_registry::registry::ValidatorResponse> = w
        .query(REG, &basset_sei_validators_registry::msg::QueryMsg::GetValidatorsForDelegation {})
        .unwrap_or_else(|e| qfail("registry query", e));
    let mut v: Vec<String> = r.into_iter().map(|x| x.address).collect();
    v.sort();
    v
}

pub fn observe(w: &World, cfg: &Cfg) -> Obs {
    let who = principals(cfg);
    let mut requests = BTreeMap::new();
    for a in &who {
        let r = hub_requests(w, a);
        if !r.is_empty() {
            requests.insert(a.clone(), r);
        }
    }
    let mut bank = BTreeMap::new();
    for a in &who {
        for d in [USEI, KUSD, UATOM, UJUNK, UIBC] {
            let b = w.balance(a, d);
            if b > 0 {
                bank.insert((a.clone(), d.to_string()), b);
            }
        }
    }
    let delegations: BTreeMap<String, u128> =
        w.delegations.iter().filter(|((d, _), _)| d == HUB).map(|((_, v), a)| (v.clone(), *a)).collect();
    let delegated = delegations.values().sum();
    Obs {
        time: w.time,
        state: hub_state(w),
        batch: hub_batch(w),
        params: hub_params(w),
        hub_config: w.query(HUB, &HubQuery::Config {}).unwrap_or_else(|e| qfail("hub Config", e)),
        history: hub_history(w),
        requests,
        bsei: token_obs(w, BSEI, &who),
        stsei: token_obs(w, STSEI, &who),
        reward: reward_obs(w, &who),
        bank,
        delegations,
        delegated,
        stored_books: hub_stored_books(w),
        registry: registry_stored(w),
        registry_query: registry_query(w),
    }
}

impl Obs {
    pub fn bank_of(&self, a: &str, d: &str) -> u128 {
        *self.bank.get(&(a.to_string(), d.to_string())).unwrap_or(&0)
    }
    pub fn books(&self) -> u128 {
        self.state.total_bond_bsei_amount.u128() + self.state.total_bond_stsei_amount.u128()
    }
    pub fn bsei_claims(&self) -> u128 {
        self.bsei.supply + self.batch.requested_bsei_with_fee.u128()
    }
    pub fn stsei_claims(&self) -> u128 {
        self.stsei.supply + self.batch.requested_stsei.u128()
    }
    pub fn hist(&self, id: u64) -> Option<&UnbondHistoryResponse> {
        self.history.iter().find(|h| h.batch_id == id)
    }
    pub fn reqs(&self, a: &str) -> &[(u64, u128, u128)] {
        self.requests.get(a).map(|v| v.as_slice()).unwrap_or(&[])
    }
}
