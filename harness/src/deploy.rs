//! Canonical deployment of the six contracts plus stubs, and the generated configuration (DESIGN.md 3.2, E3).
use crate::chain::*;
use basset::hub::ExecuteMsg as HubExec;
use cosmwasm_std::Decimal;
use proptest::prelude::*;
use serde::{Deserialize, Serialize};

pub const OWNER: &str = "owner";
pub const HUB: &str = "hub";
pub const BSEI: &str = "bsei";
pub const STSEI: &str = "stsei";
pub const REWARD: &str = "reward";
pub const DISP: &str = "dispatcher";
pub const REG: &str = "registry";
pub const SWAP: &str = "swap";
pub const ORACLE: &str = "oracle";
pub const KEEPER: &str = "keeper";
pub const UPDATER: &str = "updater";
pub const SINK: &str = "sink";
pub const AIRDROP: &str = "airdropreg";
/// an unregistered cw20 (stSei code, minter = FAKEHUB)
pub const FAKE20: &str = "fake20";
pub const FAKEHUB: &str = "fakehub";

/// staking coin = stSei reward coin
pub const USEI: &str = "usei";
/// bSei reward coin
pub const KUSD: &str = "kusd";
/// a third coin listed in the dispatcher's swap_denoms
pub const UATOM: &str = "uatom";
/// a coin nobody knows
pub const UJUNK: &str = "ujunk";
/// another listed third coin; sorts *before* the bSei reward coin in bank balance lists
pub const UIBC: &str = "ibc/atom";

pub const ONE: u128 = 1_000_000_000_000_000_000;

pub fn user(i: u8) -> String {
    format!("user{}", i)
}
pub fn val(i: u8) -> String {
    format!("val{}", i)
}

/// Decimal stored as its 18-decimal atomics, serialised as a string.
#[derive(Clone, Copy, Debug, PartialEq, Eq, PartialOrd, Ord, Serialize, Deserialize)]
pub struct Dec(pub cosmwasm_std::Uint128);
impl Dec {
    pub fn new(atomics: u128) -> Self {
        Dec(cosmwasm_std::Uint128::new(atomics))
    }
    pub fn dec(&self) -> Decimal {
        Decimal::from_atomics(self.0, 18).unwrap()
    }
    pub fn atomics(&self) -> u128 {
        self.0.u128()
    }
}

#[derive(Clone, Debug, PartialEq, Serialize, Deserialize)]
pub struct Cfg {
    /// validators existing on chain, 1..=30 (mostly 1..=5)
    pub n_vals: u8,
    /// validators registered at deployment (the first n_reg), 1..=n_vals
    pub n_reg: u8,
    /// user accounts, 2..=6
    pub n_users: u8,
    pub fee: Dec,
    pub threshold: Dec,
    pub keeper_rate: Dec,
    pub epoch: u64,
    pub unbonding: u64,
    /// oracle price of the stSei reward coin in the bSei reward coin
    pub price: Dec,
}

impl Default for Cfg {
    fn default() -> Self {
        Cfg {
            n_vals: 3,
            n_reg: 3,
            n_users: 4,
            fee: Dec::new(ONE / 200),
            threshold: Dec::new(ONE),
            keeper_rate: Dec::new(ONE / 20),
            epoch: 30,
            unbonding: 1000,
            price: Dec::new(ONE),
        }
    }
}

pub fn dec_grid(grid: &'static [u128], max: u128) -> BoxedStrategy<Dec> {
    prop_oneof![
        3 => proptest::sample::select(grid).prop_map(Dec::new),
        1 => (0..=max).prop_map(Dec::new),
    ]
    .boxed()
}

pub fn price_strategy() -> BoxedStrategy<Dec> {
    // m * 10^e, e in [-9, 9], m in 1..999 (two decimals of mantissa)
    (1u128..1000, -9i32..=9)
        .prop_map(|(m, e)| {
            // price = m/100 * 10^e  in atomics: m * 10^(16+e)
            let exp = (16 + e) as u32;
            Dec::new(m * 10u128.pow(exp))
        })
        .boxed()
}

const FEE_GRID: &[u128] = &[0, ONE / 1000, ONE / 200, ONE / 20, ONE / 2, ONE];
const THR_GRID: &[u128] = &[ONE, ONE, ONE * 99 / 100, ONE * 9 / 10, ONE / 2, 0];
const KEEPER_GRID: &[u128] = &[0, 1, ONE / 20, ONE / 20, ONE / 2, ONE - 1, ONE];
const EPOCH_GRID: &[u64] = &[1, 5, 30, 30, 1000];
const UNB_GRID: &[u64] = &[1, 10, 1000, 1000];

/// Strategy over deployment configurations (DESIGN.md 3.2).
pub fn cfg_strategy() -> BoxedStrategy<Cfg> {
    (
        (prop_oneof![10 => 1u8..=5, 1 => 6u8..=16, 1 => 17u8..=30], any::<u8>(), 2u8..=6),
        dec_grid(FEE_GRID, ONE),
        dec_grid(THR_GRID, ONE),
        dec_grid(KEEPER_GRID, ONE),
        prop_oneof![3 => proptest::sample::select(EPOCH_GRID), 1 => 1u64..2000],
        prop_oneof![3 => proptest::sample::select(UNB_GRID), 1 => 1u64..5000],
        prop_oneof![2 => Just(Dec::new(ONE)), 3 => price_strategy()],
    )
        .prop_map(|((n_vals, r, n_users), fee, threshold, keeper_rate, epoch, unbonding, price)| Cfg {
            n_vals,
            // a quarter of the deployments register every validator
            n_reg: if r % 4 == 0 { n_vals } else { 1 + (r / 4) % n_vals },
            n_users,
            fee,
            threshold,
            keeper_rate,
            epoch,
            unbonding,
            price,
        })
        .boxed()
}

/// Strategy with the keeper rate restricted to values for which dispatch cannot hit the known zero-send
/// finding in its "rate = 0 / rate = 1" form (dust can still trigger it).
pub fn cfg_strategy_std() -> BoxedStrategy<Cfg> {
    cfg_strategy()
}

pub fn hub_init(cfg: &Cfg) -> basset::hub::InstantiateMsg {
    basset::hub::InstantiateMsg {
        epoch_period: cfg.epoch,
        underlying_coin_denom: USEI.into(),
        unbonding_period: cfg.unbonding,
        peg_recovery_fee: cfg.fee.dec(),
        er_threshold: cfg.threshold.dec(),
        reward_denom: KUSD.into(),
        update_reward_index_addr: UPDATER.into(),
    }
}

pub fn dispatcher_init(cfg: &Cfg) -> basset_sei_rewards_dispatcher::msg::InstantiateMsg {
    basset_sei_rewards_dispatcher::msg::InstantiateMsg {
        hub_contract: HUB.into(),
        bsei_reward_contract: REWARD.into(),
        stsei_reward_denom: USEI.into(),
        bsei_reward_denom: KUSD.into(),
        krp_keeper_address: KEEPER.into(),
        krp_keeper_rate: cfg.keeper_rate.dec(),
        swap_contract: SWAP.into(),
        swap_denoms: vec![USEI.into(), KUSD.into(), UATOM.into(), UIBC.into()],
        oracle_contract: ORACLE.into(),
    }
}

pub fn stsei_init(hub: &str, initial: Vec<cw20::Cw20Coin>) -> basset_sei_token_stsei::msg::TokenInitMsg {
    basset_sei_token_stsei::msg::TokenInitMsg {
        name: "stsei".into(),
        symbol: "STSEI".into(),
        decimals: 6,
        initial_balances: initial,
        hub_contract: hub.into(),
        marketing: Some(cw20_base::msg::InstantiateMarketingInfo {
            project: None,
            description: None,
            marketing: Some(OWNER.into()),
            logo: None,
        }),
    }
}

pub fn bsei_init(hub: &str, initial: Vec<cw20::Cw20Coin>) -> basset_sei_token_bsei::msg::TokenInitMsg {
    basset_sei_token_bsei::msg::TokenInitMsg {
        name: "bsei".into(),
        symbol: "BSEI".into(),
        decimals: 6,
        initial_balances: initial,
        hub_contract: hub.into(),
    }
}

/// Instantiate and cross-register everything as the deployment scripts do (E3).
pub fn deploy(cfg: &Cfg) -> World {
    let mut w = World::new(USEI, cfg.unbonding);
    w.oracle_price = cfg.price.dec();
    for i in 0..cfg.n_vals {
        w.validators.insert(val(i));
    }
    w.register_stub(Kind::Swap, SWAP);
    w.register_stub(Kind::Oracle, ORACLE);
    w.register_stub(Kind::Sink, SINK);
    w.register_stub(Kind::Sink, AIRDROP);
    w.instantiate(Kind::Hub, OWNER, HUB, &hub_init(cfg)).expect("hub init");
    w.instantiate(
        Kind::Registry,
        OWNER,
        REG,
        &basset_sei_validators_registry::msg::InstantiateMsg {
            registry: (0..cfg.n_reg)
                .map(|i| basset_sei_validators_registry::registry::Validator { address: val(i) })
                .collect(),
            hub_contract: HUB.into(),
        },
    )
    .expect("registry init");
    w.instantiate(Kind::Bsei, OWNER, BSEI, &bsei_init(HUB, vec![])).expect("bsei init");
    w.instantiate(Kind::Stsei, OWNER, STSEI, &stsei_init(HUB, vec![])).expect("stsei init");
    w.instantiate(Kind::Stsei, OWNER, FAKE20, &stsei_init(FAKEHUB, vec![])).expect("fake20 init");
    w.instantiate(
        Kind::Reward,
        OWNER,
        REWARD,
        &basset::reward::InstantiateMsg {
            hub_contract: HUB.into(),
            reward_denom: KUSD.into(),
            swap_contract: SWAP.into(),
            swap_denoms: vec![USEI.into()],
        },
    )
    .expect("reward init");
    w.instantiate(Kind::Dispatcher, OWNER, DISP, &dispatcher_init(cfg)).expect("dispatcher init");
    w.tx(
        OWNER,
        HUB,
        &HubExec::UpdateConfig {
            rewards_dispatcher_contract: Some(DISP.into()),
            validators_registry_contract: Some(REG.into()),
            bsei_token_contract: Some(BSEI.into()),
            stsei_token_contract: Some(STSEI.into()),
            airdrop_registry_contract: Some(AIRDROP.into()),
            rewards_contract: Some(REWARD.into()),
            update_reward_index_addr: None,
        },
        &[],
    )
    .expect("hub update_config");
    w.trace.clear();
    w
}

/// All account names a history can involve (for observation sweeps).
pub fn principals(cfg: &Cfg) -> Vec<String> {
    let mut v: Vec<String> = (0..cfg.n_users).map(user).collect();
    for a in [OWNER, KEEPER, UPDATER, HUB, REWARD, DISP, REG, BSEI, STSEI, SINK, SWAP, FAKEHUB] {
        v.push(a.to_string());
    }
    v
}
