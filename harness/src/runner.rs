//! Seeded proptest runners, worker threads, classification counters, shrinking, replay, evidence
//! (DESIGN.md 3.4 - 3.6).
use proptest::strategy::{BoxedStrategy, Strategy, ValueTree};
use proptest::test_runner::{Config, RngAlgorithm, TestCaseError, TestError, TestRng, TestRunner};
use serde::de::DeserializeOwned;
use serde::{Deserialize, Serialize};
use std::collections::{BTreeMap, BTreeSet, HashSet};
use std::fmt::Debug;
use std::panic::{catch_unwind, AssertUnwindSafe};
use std::path::{Path, PathBuf};
use std::sync::atomic::{AtomicBool, Ordering};
use std::sync::{Arc, Mutex};
use std::time::Instant;

#[derive(Clone, Copy, Debug, PartialEq, Eq)]
pub enum Tier {
    Quick,
    Thorough,
}

impl Tier {
    pub fn name(&self) -> &'static str {
        match self {
            Tier::Quick => "quick",
            Tier::Thorough => "thorough",
        }
    }
}

#[derive(Clone, Debug, PartialEq, Serialize, Deserialize)]
pub struct Violation {
    pub property: String,
    /// short stable string naming the failed clause and call site (what known findings are keyed on)
    pub signature: String,
    pub detail: String,
}

impl Violation {
    pub fn new(property: &str, signature: impl Into<String>, detail: impl Into<String>) -> Self {
        Violation { property: property.to_string(), signature: signature.into(), detail: detail.into() }
    }
}

#[derive(Default, Debug)]
pub struct CaseResult {
    pub violations: Vec<Violation>,
    /// listed known findings met and excluded while exploring (never failures)
    pub known: Vec<Violation>,
    pub labels: BTreeSet<String>,
    pub nontrivial: bool,
    /// amount of work (steps executed, probes, ...)
    pub work: u64,
    pub counters: BTreeMap<String, u64>,
    /// key observed numbers, shown next to a sample
    pub notes: Vec<String>,
}

impl CaseResult {
    pub fn label(&mut self, l: &str) {
        self.labels.insert(l.to_string());
    }
    pub fn count(&mut self, k: &str, n: u64) {
        *self.counters.entry(k.to_string()).or_default() += n;
    }
    pub fn fail(&mut self, v: Violation) {
        self.violations.push(v);
    }
}

pub trait Prop: Sync {
    type Case: Clone + Debug + Serialize + DeserializeOwned + Send + Sync + 'static;
    fn id(&self) -> &'static str;
    /// how cases are generated and what makes one non-trivial / distinct
    fn rule(&self) -> String;
    fn assumptions(&self) -> Vec<String>;
    fn strategy(&self, tier: Tier) -> BoxedStrategy<Self::Case>;
    fn cases(&self, tier: Tier) -> u32;
    /// deterministic cases executed before the generated ones (enumerations, hand-kept regressions)
    fn fixed_cases(&self, _tier: Tier) -> Vec<Self::Case> {
        vec![]
    }
    /// `lenient`: findings listed as known are excluded by construction where the environment allows
    /// (e.g. zero-amount bank sends are recorded and skipped) so that exploration continues behind them.
    fn check(&self, case: &Self::Case, lenient: bool) -> CaseResult;
}

// ------------------------------------------------------------------------------------------------
// known findings

#[derive(Clone, Debug, Serialize, Deserialize)]
pub struct KnownFinding {
    pub property: String,
    pub signature: String,
    pub what: String,
    /// committed replay file (relative to /verif) that reproduces it in strict mode
    pub replay: String,
}

#[derive(Clone, Debug, Serialize, Deserialize)]
pub struct FixedFinding {
    pub property: String,
    pub commit: String,
    pub what: String,
    /// committed replay of the formerly failing case: must pass now
    pub replay: String,
}

#[derive(Clone, Debug, Default, Serialize, Deserialize)]
pub struct KnownFile {
    #[serde(default)]
    pub known: Vec<KnownFinding>,
    #[serde(default)]
    pub fixed: Vec<FixedFinding>,
    #[serde(default)]
    pub fixed_lines: Vec<String>,
}

pub fn verif_root() -> PathBuf {
    if let Ok(p) = std::env::var("VERIF_ROOT") {
        return PathBuf::from(p);
    }
    // the binary lives in <root>/harness/target/release/
    let exe = std::env::current_exe().unwrap_or_default();
    for anc in exe.ancestors() {
        if anc.join("MANIFEST.json").exists() || anc.join("properties.jsonl").exists() {
            return anc.to_path_buf();
        }
    }
    PathBuf::from("/verif")
}

pub fn load_known() -> KnownFile {
    let p = verif_root().join("known_findings.json");
    match std::fs::read_to_string(&p) {
        Ok(s) => serde_json::from_str(&s).unwrap_or_else(|e| {
            eprintln!("cannot parse {}: {}", p.display(), e);
            std::process::exit(2)
        }),
        Err(_) => KnownFile::default(),
    }
}

static KNOWN: std::sync::OnceLock<KnownFile> = std::sync::OnceLock::new();
/// Is this signature listed in the committed known-findings file?
pub fn is_known(signature: &str) -> bool {
    KNOWN.get_or_init(load_known).known.iter().any(|k| k.signature == signature)
}

thread_local! {
    static LENIENT: std::cell::Cell<bool> = std::cell::Cell::new(false);
}
/// exploration mode: listed known findings are excluded by construction and counted
pub fn set_lenient(b: bool) {
    LENIENT.with(|l| l.set(b));
}
pub fn lenient() -> bool {
    LENIENT.with(|l| l.get())
}
/// A finding that is tolerated (counted, exploration continues) iff exploration is lenient and the committed
/// file lists its signature.
pub fn tolerated(signature: &str) -> bool {
    lenient() && is_known(signature)
}

// ------------------------------------------------------------------------------------------------
// replay files

#[derive(Clone, Debug, Serialize, Deserialize)]
pub struct ReplayFile<C> {
    pub property: String,
    pub lenient: bool,
    /// "violation:<signature>" | "pass"
    pub expect: String,
    pub detail: String,
    pub seed: u64,
    pub case: C,
}

pub fn fnv64(data: &[u8]) -> u64 {
    let mut h: u64 = 0xcbf29ce484222325;
    for b in data {
        h ^= *b as u64;
        h = h.wrapping_mul(0x100000001b3);
    }
    h
}

fn splitmix(mut x: u64) -> u64 {
    x = x.wrapping_add(0x9E3779B97F4A7C15);
    let mut z = x;
    z = (z ^ (z >> 30)).wrapping_mul(0xBF58476D1CE4E5B9);
    z = (z ^ (z >> 27)).wrapping_mul(0x94D049BB133111EB);
    z ^ (z >> 31)
}

fn rng_for(seed: u64, id: &str, worker: u64) -> TestRng {
    let mut s = [0u8; 32];
    let mut x = splitmix(seed ^ fnv64(id.as_bytes()) ^ worker.wrapping_mul(0xA24BAED4963EE407));
    for chunk in s.chunks_mut(8) {
        x = splitmix(x);
        chunk.copy_from_slice(&x.to_le_bytes());
    }
    TestRng::from_seed(RngAlgorithm::ChaCha, &s)
}

thread_local! {
    static LAST_PANIC: std::cell::RefCell<String> = std::cell::RefCell::new(String::new());
}

pub fn install_panic_hook() {
    std::panic::set_hook(Box::new(|info| {
        let msg = info
            .payload()
            .downcast_ref::<String>()
            .cloned()
            .or_else(|| info.payload().downcast_ref::<&str>().map(|s| s.to_string()))
            .unwrap_or_default();
        let loc = info.location().map(|l| format!("{}:{}", l.file(), l.line())).unwrap_or_default();
        LAST_PANIC.with(|p| *p.borrow_mut() = format!("{} @ {}", msg, loc));
    }));
}

/// Run the property's check, turning a failed public query into a violation and any other harness panic
/// into an infrastructure error (exit 2, never a violation).
pub fn guarded_check<P: Prop>(p: &P, case: &P::Case, lenient: bool) -> CaseResult {
    set_lenient(lenient);
    match catch_unwind(AssertUnwindSafe(|| p.check(case, lenient))) {
        Ok(r) => r,
        Err(_) => {
            let msg = LAST_PANIC.with(|p| p.borrow().clone());
            if let Some(rest) = msg.strip_prefix("QUERYFAIL ") {
                let name = rest.split(':').next().unwrap_or("query").to_string();
                let mut r = CaseResult::default();
                r.fail(Violation::new(p.id(), format!("{}/query-failed/{}", p.id(), name), msg));
                r
            } else {
                eprintln!("INFRASTRUCTURE: harness panic while checking {}: {}", p.id(), msg);
                eprintln!("case: {}", serde_json::to_string(case).unwrap_or_default());
                std::process::exit(2)
            }
        }
    }
}

#[derive(Default)]
struct Stats {
    evaluations: u64,
    work: u64,
    nontrivial: HashSet<u64>,
    labels: BTreeMap<String, u64>,
    counters: BTreeMap<String, u64>,
    known_hits: BTreeMap<String, u64>,
    samples: Vec<serde_json::Value>,
}

impl Stats {
    fn absorb<C: Serialize>(&mut self, case: &C, r: &CaseResult, known: &BTreeSet<String>, max_samples: usize) {
        self.evaluations += 1;
        self.work += r.work;
        for l in &r.labels {
            *self.labels.entry(l.clone()).or_default() += 1;
        }
        for (k, v) in &r.counters {
            *self.counters.entry(k.clone()).or_default() += v;
        }
        for v in r.violations.iter().chain(r.known.iter()) {
            if known.contains(&v.signature) {
                *self.known_hits.entry(v.signature.clone()).or_default() += 1;
            }
        }
        if r.nontrivial {
            let bytes = serde_json::to_vec(case).unwrap_or_default();
            let fresh = self.nontrivial.insert(fnv64(&bytes));
            if fresh && self.samples.len() < max_samples {
                self.samples.push(serde_json::json!({
                    "case": serde_json::to_value(case).unwrap_or_default(),
                    "labels": r.labels.iter().cloned().collect::<Vec<_>>(),
                    "notes": r.notes,
                }));
            }
        }
    }
    fn merge(&mut self, o: Stats) {
        self.evaluations += o.evaluations;
        self.work += o.work;
        self.nontrivial.extend(o.nontrivial);
        for (k, v) in o.labels {
            *self.labels.entry(k).or_default() += v;
        }
        for (k, v) in o.counters {
            *self.counters.entry(k).or_default() += v;
        }
        for (k, v) in o.known_hits {
            *self.known_hits.entry(k).or_default() += v;
        }
        for s in o.samples {
            if self.samples.len() < 4 {
                self.samples.push(s);
            }
        }
    }
}

pub fn workers() -> usize {
    std::env::var("VERIF_WORKERS").ok().and_then(|s| s.parse().ok()).unwrap_or_else(|| {
        std::thread::available_parallelism().map(|n| n.get()).unwrap_or(8).min(16)
    })
}

fn unknown<'a>(r: &'a CaseResult, known: &BTreeSet<String>) -> Option<&'a Violation> {
    r.violations.iter().find(|v| !known.contains(&v.signature))
}

fn write_replay<P: Prop>(p: &P, case: &P::Case, v: &Violation, lenient: bool, seed: u64) -> PathBuf {
    let dir = verif_root().join("replays");
    let _ = std::fs::create_dir_all(&dir);
    let rf = ReplayFile {
        property: p.id().to_string(),
        lenient,
        expect: format!("violation:{}", v.signature),
        detail: v.detail.clone(),
        seed,
        case: case.clone(),
    };
    let body = serde_json::to_string_pretty(&rf).unwrap();
    let path = dir.join(format!("{}-{:016x}.json", p.id(), fnv64(body.as_bytes())));
    std::fs::write(&path, body).expect("write replay");
    path
}

/// Re-execute one replay file through the property's check directly (no proptest involved).
pub fn replay_file<P: Prop>(p: &P, path: &Path) -> Result<(ReplayFile<P::Case>, CaseResult), String> {
    let s = std::fs::read_to_string(path).map_err(|e| format!("{}: {}", path.display(), e))?;
    let rf: ReplayFile<P::Case> = serde_json::from_str(&s).map_err(|e| format!("{}: {}", path.display(), e))?;
    let r = guarded_check(p, &rf.case, rf.lenient);
    Ok((rf, r))
}

/// `./check <ID> --replay <file>`: strict — nothing is tolerated.
pub fn replay_cmd<P: Prop>(p: &P, path: &Path) -> i32 {
    match replay_file(p, path) {
        Err(e) => {
            eprintln!("cannot replay: {}", e);
            2
        }
        Ok((_, r)) => {
            for n in &r.notes {
                crate::outln!("note: {}", n);
            }
            if r.violations.is_empty() {
                crate::outln!("replay {}: no violation", path.display());
                0
            } else {
                for v in &r.violations {
                    crate::outln!("violation {}: {}", v.signature, v.detail);
                }
                crate::outln!("VIOLATION property={} replay={}", p.id(), path.display());
                1
            }
        }
    }
}

pub struct RunOutcome {
    pub exit: i32,
}

pub fn run_prop<P: Prop>(p: &P, tier: Tier, seed: u64) -> i32 {
    let t0 = Instant::now();
    let id = p.id();
    let root = verif_root();
    let kf = load_known();
    let known_sigs: BTreeSet<String> =
        kf.known.iter().filter(|k| k.property == id).map(|k| k.signature.clone()).collect();
    let mut exit = 0;
    let mut violations = 0u64;
    let mut replayed = 0u64;
    let mut known_lines: Vec<String> = vec![];

    // ---- replay tier: known findings (must still reproduce to be announced), fixed findings and
    // hand-kept regressions (must pass)
    for k in kf.known.iter().filter(|k| k.property == id) {
        let path = root.join(&k.replay);
        match replay_file(p, &path) {
            Err(e) => {
                eprintln!("INFRASTRUCTURE: known finding replay unusable: {}", e);
                return 2;
            }
            Ok((_, r)) => {
                replayed += 1;
                if r.violations.iter().any(|v| v.signature == k.signature) {
                    let line = format!("KNOWN-FINDING: property={} {} [{}]", id, k.what, k.signature);
                    crate::outln!("{}", line);
                    known_lines.push(line);
                } else {
                    crate::outln!(
                        "note: known finding {} no longer reproduces from {} (repaired?)",
                        k.signature, k.replay
                    );
                }
                if let Some(v) = unknown(&r, &known_sigs) {
                    crate::outln!("violation {}: {}", v.signature, v.detail);
                    crate::outln!("VIOLATION property={} replay={}", id, path.display());
                    exit = 1;
                    violations += 1;
                }
            }
        }
    }
    let mut must_pass: Vec<PathBuf> =
        kf.fixed.iter().filter(|f| f.property == id).map(|f| root.join(&f.replay)).collect();
    if let Ok(rd) = std::fs::read_dir(root.join("regress")) {
        let mut extra: Vec<PathBuf> = rd
            .filter_map(|e| e.ok())
            .map(|e| e.path())
            .filter(|p| {
                p.file_name()
                    .and_then(|n| n.to_str())
                    .map(|n| n.starts_with(&format!("{}-pass-", id)) && n.ends_with(".json"))
                    .unwrap_or(false)
            })
            .collect();
        extra.sort();
        for e in extra {
            if !must_pass.contains(&e) {
                must_pass.push(e);
            }
        }
    }
    for path in must_pass {
        match replay_file(p, &path) {
            Err(e) => {
                eprintln!("INFRASTRUCTURE: regression replay unusable: {}", e);
                return 2;
            }
            Ok((_, r)) => {
                replayed += 1;
                if let Some(v) = unknown(&r, &known_sigs) {
                    crate::outln!("violation {}: {}", v.signature, v.detail);
                    crate::outln!("VIOLATION property={} replay={}", id, path.display());
                    exit = 1;
                    violations += 1;
                }
            }
        }
    }

    // ---- fixed (enumerated) cases, in parallel
    let nworkers = workers();
    let mut total = Stats::default();
    let fixed = p.fixed_cases(tier);
    let n_fixed = fixed.len();
    if !fixed.is_empty() {
        let fixed = Arc::new(fixed);
        let failure: Mutex<Option<(usize, P::Case, Violation)>> = Mutex::new(None);
        let merged: Mutex<Stats> = Mutex::new(Stats::default());
        std::thread::scope(|s| {
            for wk in 0..nworkers {
                let fixed = fixed.clone();
                let known_sigs = &known_sigs;
                let failure = &failure;
                let merged = &merged;
                s.spawn(move || {
                    let mut st = Stats::default();
                    let mut i = wk;
                    while i < fixed.len() {
                        let c = &fixed[i];
                        let r = guarded_check(p, c, true);
                        st.absorb(c, &r, known_sigs, 2);
                        if let Some(v) = unknown(&r, known_sigs) {
                            let mut f = failure.lock().unwrap();
                            if f.as_ref().map(|(j, _, _)| i < *j).unwrap_or(true) {
                                *f = Some((i, c.clone(), v.clone()));
                            }
                        }
                        i += nworkers;
                    }
                    merged.lock().unwrap().merge(st);
                });
            }
        });
        total.merge(merged.into_inner().unwrap());
        if let Some((_, c, v)) = failure.into_inner().unwrap() {
            let path = write_replay(p, &c, &v, true, seed);
            crate::outln!("violation {}: {}", v.signature, v.detail);
            crate::outln!("VIOLATION property={} replay={}", id, path.display());
            exit = 1;
            violations += 1;
        }
    }

    // ---- generated cases: one proptest runner per worker
    let cases = std::env::var("VERIF_CASES").ok().and_then(|s| s.parse().ok()).unwrap_or_else(|| p.cases(tier));
    if cases > 0 && exit == 0 {
        let per = (cases as usize + nworkers - 1) / nworkers;
        let stop = AtomicBool::new(false);
        let failures: Mutex<Vec<(usize, P::Case, Violation)>> = Mutex::new(vec![]);
        let merged: Mutex<Stats> = Mutex::new(Stats::default());
        std::thread::scope(|s| {
            for wk in 0..nworkers {
                let known_sigs = &known_sigs;
                let stop = &stop;
                let failures = &failures;
                let merged = &merged;
                s.spawn(move || {
                    install_panic_hook();
                    let config = Config {
                        cases: per as u32,
                        failure_persistence: None,
                        max_shrink_iters: 4000,
                        max_global_rejects: 65536,
                        ..Config::default()
                    };
                    let mut runner = TestRunner::new_with_rng(config, rng_for(seed, id, wk as u64));
                    let strat = p.strategy(tier);
                    let st = std::cell::RefCell::new(Stats::default());
                    let failed = std::cell::Cell::new(false);
                    let res = runner.run(&strat, |case| {
                        if stop.load(Ordering::Relaxed) && !failed.get() {
                            // another worker already failed: finish quickly
                            return Ok(());
                        }
                        let r = guarded_check(p, &case, true);
                        if !failed.get() {
                            st.borrow_mut().absorb(&case, &r, known_sigs, 3);
                        }
                        if let Some(v) = unknown(&r, known_sigs) {
                            failed.set(true);
                            stop.store(true, Ordering::Relaxed);
                            return Err(TestCaseError::fail(format!("{}|{}", v.signature, v.detail)));
                        }
                        Ok(())
                    });
                    if let Err(TestError::Fail(_, case)) = res {
                        // re-run the minimal case to get its violation
                        let r = guarded_check(p, &case, true);
                        if let Some(v) = unknown(&r, known_sigs) {
                            failures.lock().unwrap().push((wk, case, v.clone()));
                        }
                    } else if let Err(TestError::Abort(reason)) = res {
                        eprintln!("INFRASTRUCTURE: proptest aborted: {}", reason);
                        std::process::exit(2);
                    }
                    merged.lock().unwrap().merge(st.into_inner());
                });
            }
        });
        total.merge(merged.into_inner().unwrap());
        let mut f = failures.into_inner().unwrap();
        f.sort_by_key(|(wk, _, _)| *wk);
        if let Some((_, c, v)) = f.into_iter().next() {
            let path = write_replay(p, &c, &v, true, seed);
            crate::outln!("violation {}: {}", v.signature, v.detail);
            crate::outln!("VIOLATION property={} replay={}", id, path.display());
            exit = 1;
            violations += 1;
        }
    }

    // ---- evidence
    let wall = t0.elapsed().as_secs_f64();
    let mut coverage = serde_json::Map::new();
    coverage.insert("evaluations".into(), serde_json::json!(total.evaluations));
    coverage.insert("distinct_nontrivial".into(), serde_json::json!(total.nontrivial.len()));
    coverage.insert("rule".into(), serde_json::json!(p.rule()));
    coverage.insert("samples".into(), serde_json::json!(total.samples));
    coverage.insert("work_units".into(), serde_json::json!(total.work));
    coverage.insert("enumerated_cases".into(), serde_json::json!(n_fixed));
    coverage.insert("generated_cases".into(), serde_json::json!(total.evaluations.saturating_sub(n_fixed as u64)));
    coverage.insert("replayed_regressions".into(), serde_json::json!(replayed));
    coverage.insert("classes".into(), serde_json::json!(total.labels));
    coverage.insert("counters".into(), serde_json::json!(total.counters));
    coverage.insert("known_findings_encountered".into(), serde_json::json!(total.known_hits));
    coverage.insert("known_finding_lines".into(), serde_json::json!(known_lines));
    coverage.insert("workers".into(), serde_json::json!(nworkers));
    let ev = serde_json::json!({
        "property_id": id,
        "tier": tier.name(),
        "seed": seed,
        "level": "exploration",
        "coverage": coverage,
        "assumptions": p.assumptions(),
        "wall_s": wall,
        "violations": violations,
    });
    let evdir = root.join("evidence");
    let _ = std::fs::create_dir_all(&evdir);
    let evpath = evdir.join(format!("{}.json", id));
    if let Err(e) = std::fs::write(&evpath, serde_json::to_string_pretty(&ev).unwrap()) {
        eprintln!("INFRASTRUCTURE: cannot write evidence: {}", e);
        return 2;
    }
    crate::outln!(
        "{} {}: {} cases ({} enumerated), {} distinct non-trivial, {} work units, {:.1}s, seed {} -> {}",
        id,
        tier.name(),
        total.evaluations,
        n_fixed,
        total.nontrivial.len(),
        total.work,
        wall,
        seed,
        if exit == 0 { "held" } else { "VIOLATED" }
    );
    if !total.labels.is_empty() {
        crate::outln!("  classes: {:?}", total.labels);
    }
    if !total.known_hits.is_empty() {
        crate::outln!("  known findings encountered (excluded, counted): {:?}", total.known_hits);
    }
    exit
}

/// Generate one value from a strategy with a fixed seed (used by tools that need example cases).
pub fn sample_one<T: Debug>(s: &BoxedStrategy<T>, seed: u64) -> T {
    let mut runner = TestRunner::new_with_rng(Config::default(), rng_for(seed, "sample", 0));
    s.new_tree(&mut runner).unwrap().current()
}

/// Entry point for coverage-guided fuzz targets: run one decoded case through the property's check in exploration
/// mode (listed known findings tolerated) and return the first violation that is not listed.
pub fn fuzz_one<P: Prop>(p: &P, case: &P::Case) -> Option<Violation> {
    let known: BTreeSet<String> = KNOWN.get_or_init(load_known).known.iter().filter(|k| k.property == p.id()).map(|k| k.signature.clone()).collect();
    let r = guarded_check(p, case, true);
    unknown(&r, &known).cloned()
}

/// Write a replay file for a case found by a fuzz target.
pub fn save_fuzz_replay<P: Prop>(p: &P, case: &P::Case, v: &Violation) -> PathBuf {
    write_replay(p, case, v, true, 0)
}
