//! C10 — privileged operations are rejected for every unauthorised sender (enumeration + generated payloads,
//! ownership sequences against a reference model).
use crate::chain::*;
use crate::deploy::*;
use crate::obs::qfail;
use crate::ops::hook_msg;
use crate::runner::*;
use basset::hub::{ExecuteMsg as HubExec, QueryMsg as HubQuery};
use basset::reward::ExecuteMsg as RewExec;
use basset_sei_rewards_dispatcher::msg::ExecuteMsg as DExec;
use basset_sei_validators_registry::msg::ExecuteMsg as RegExec;
use cosmwasm_std::{to_json_binary, Binary, Coin, Decimal, Uint128};
use cw20::{Cw20ExecuteMsg, Cw20ReceiveMsg};
use proptest::prelude::*;
use serde::{Deserialize, Serialize};

const ID: &str = "C10";

pub const STATE_KINDS: [&str; 6] = ["fresh", "evolved", "after_completed_transfer", "after_abandoned_transfer", "optional_contracts_unregistered", "optional_contracts_partially_registered"];
pub const SENDERS: [&str; 16] = [
    "owner_now", "nominee_now", "ex_owner", "hub", "bsei", "stsei", "reward", "dispatcher", "registry", "swap", "oracle", "airdrop", "updater", "keeper", "user", "self",
];

/// (contract, variant name). The index into this table is part of a case.
pub const VARIANTS: [(&str, &str); 40] = [
    ("hub", "update_config"),
    ("hub", "update_params"),
    ("hub", "set_owner"),
    ("hub", "accept_ownership"),
    ("hub", "bond_rewards"),
    ("hub", "update_global_index"),
    ("hub", "redelegate_proxy"),
    ("hub", "swap_hook"),
    ("hub", "claim_airdrop"),
    ("hub", "receive_unbond"),
    ("hub", "receive_convert"),
    ("hub", "update_config_token_addresses"),
    ("reward", "update_config"),
    ("reward", "set_owner"),
    ("reward", "accept_ownership"),
    ("reward", "update_swap_denom"),
    ("reward", "swap_to_reward_denom"),
    ("reward", "update_global_index"),
    ("reward", "increase_balance"),
    ("reward", "decrease_balance"),
    ("dispatcher", "swap_to_reward_denom"),
    ("dispatcher", "dispatch_rewards"),
    ("dispatcher", "update_config"),
    ("dispatcher", "set_owner"),
    ("dispatcher", "accept_ownership"),
    ("dispatcher", "update_swap_contract"),
    ("dispatcher", "update_swap_denom"),
    ("dispatcher", "update_oracle_contract"),
    ("registry", "add_validator"),
    ("registry", "remove_validator"),
    ("registry", "update_config"),
    ("registry", "set_owner"),
    ("registry", "accept_ownership"),
    ("bsei", "mint"),
    ("bsei", "burn"),
    ("stsei", "mint"),
    ("stsei", "burn"),
    ("stsei", "update_minter"),
    ("stsei", "update_marketing"),
    ("stsei", "upload_logo"),
];

#[derive(Clone, Debug, Serialize, Deserialize)]
pub enum Case {
    Triple { state: u8, variant: u8, sender: u8, payload: u32 },
    /// ownership sequence on one of the four owned contracts: (actor index, action) with actors
    /// 0 = original owner, 1..=3 = candidates, 4 = a contract (hub), action: Some(candidate) = SetOwner, None = AcceptOwnership
    Ownership { contract: u8, steps: Vec<(u8, Option<u8>)> },
}

fn addr_of(contract: &str) -> &'static str {
    match contract {
        "hub" => HUB,
        "reward" => REWARD,
        "dispatcher" => DISP,
        "registry" => REG,
        "bsei" => BSEI,
        "stsei" => STSEI,
        _ => unreachable!(),
    }
}

pub struct Setup {
    pub w: World,
    pub owner_now: String,
    pub nominee_now: String,
    pub ex_owner: String,
}

fn bond(w: &mut World, who: &str, amount: u128, st: bool) {
    w.mint(who, USEI, amount);
    let m = if st { HubExec::BondForStSei {} } else { HubExec::Bond {} };
    let _ = w.tx(who, HUB, &m, &[Coin::new(amount, USEI)]);
}

/// A world of the given state kind.
pub fn setup(kind: u8, seed: u32) -> Setup {
    let cfg = Cfg::default();
    let mut w = deploy(&cfg);
    w.lenient_zero_send = true;
    let mut s = Setup { w, owner_now: OWNER.into(), nominee_now: OWNER.into(), ex_owner: "formerowner".into() };
    match kind {
        0 => {}
        1 => {
            let w = &mut s.w;
            bond(w, "user0", 1_000_000 + seed as u128 % 1000, false);
            bond(w, "user1", 2_000_000 + seed as u128 % 777, true);
            w.accrue(HUB, "val0", USEI, 5000);
            w.accrue(HUB, "val1", KUSD, 7000);
            let _ = w.tx(UPDATER, HUB, &HubExec::UpdateGlobalIndex { airdrop_hooks: None }, &[]);
            let _ = w.tx("user0", BSEI, &Cw20ExecuteMsg::Send { contract: HUB.into(), amount: Uint128::new(1000), msg: hook_msg(false) }, &[]);
            w.advance(31);
            let _ = w.tx("user1", STSEI, &Cw20ExecuteMsg::Send { contract: HUB.into(), amount: Uint128::new(1000), msg: hook_msg(false) }, &[]);
            w.slash("val0", 10, 1000, false);
            w.advance(1001);
            let _ = w.tx("user0", HUB, &HubExec::WithdrawUnbonded {}, &[]);
            w.accrue(HUB, "val1", USEI, 900);
        }
        2 | 3 => {
            let new = if kind == 2 { "newowner" } else { "nominee" };
            for c in [HUB, REWARD, DISP, REG] {
                set_owner(&mut s.w, c, OWNER, new).expect("set owner");
                if kind == 2 {
                    accept(&mut s.w, c, new).expect("accept");
                }
            }
            if kind == 2 {
                s.owner_now = new.into();
                s.nominee_now = new.into();
                s.ex_owner = OWNER.into();
            } else {
                s.nominee_now = new.into();
            }
            bond(&mut s.w, "user0", 1_000_000, false);
        }
        _ => {
            // the hub was instantiated but never told about its sibling contracts
            let mut w = World::new(USEI, cfg.unbonding);
            for i in 0..cfg.n_vals {
                w.validators.insert(val(i));
            }
            w.register_stub(Kind::Swap, SWAP);
            w.register_stub(Kind::Oracle, ORACLE);
            w.register_stub(Kind::Sink, SINK);
            w.register_stub(Kind::Sink, AIRDROP);
            w.instantiate(Kind::Hub, OWNER, HUB, &hub_init(&cfg)).unwrap();
            w.instantiate(
                Kind::Registry,
                OWNER,
                REG,
                &basset_sei_validators_registry::msg::InstantiateMsg {
                    registry: (0..cfg.n_reg).map(|i| basset_sei_validators_registry::registry::Validator { address: val(i) }).collect(),
                    hub_contract: HUB.into(),
                },
            )
            .unwrap();
            w.instantiate(Kind::Bsei, OWNER, BSEI, &bsei_init(HUB, vec![])).unwrap();
            w.instantiate(Kind::Stsei, OWNER, STSEI, &stsei_init(HUB, vec![])).unwrap();
            w.instantiate(
                Kind::Reward,
                OWNER,
                REWARD,
                &basset::reward::InstantiateMsg { hub_contract: HUB.into(), reward_denom: KUSD.into(), swap_contract: SWAP.into(), swap_denoms: vec![USEI.into()] },
            )
            .unwrap();
            w.instantiate(Kind::Dispatcher, OWNER, DISP, &dispatcher_init(&cfg)).unwrap();
            if kind == 5 {
                // a staged deployment: only the siblings selected by the low six bits of the payload are registered
                let on = |bit: u32, a: &str| if seed & (1 << bit) != 0 { Some(a.to_string()) } else { None };
                w.tx(
                    OWNER,
                    HUB,
                    &HubExec::UpdateConfig {
                        rewards_dispatcher_contract: on(0, DISP),
                        validators_registry_contract: on(1, REG),
                        bsei_token_contract: on(2, BSEI),
                        stsei_token_contract: on(3, STSEI),
                        airdrop_registry_contract: on(4, AIRDROP),
                        rewards_contract: on(5, REWARD),
                        update_reward_index_addr: None,
                    },
                    &[],
                )
                .expect("partial update_config");
            }
            s.w = w;
        }
    }
    // the hub holds some "airdrop" tokens, so that the swap hook has something to move
    let _ = s.w.tx(FAKEHUB, FAKE20, &Cw20ExecuteMsg::Mint { recipient: HUB.into(), amount: Uint128::new(777) }, &[]);
    s.w.trace.clear();
    s
}

pub fn set_owner(w: &mut World, c: &str, by: &str, new: &str) -> R<Vec<Ev>> {
    match c {
        HUB => w.tx(by, c, &HubExec::SetOwner { new_owner_addr: new.into() }, &[]),
        REWARD => w.tx(by, c, &RewExec::SetOwner { new_owner_addr: new.into() }, &[]),
        DISP => w.tx(by, c, &DExec::SetOwner { new_owner_addr: new.into() }, &[]),
        _ => w.tx(by, c, &RegExec::SetOwner { new_owner_addr: new.into() }, &[]),
    }
}
pub fn accept(w: &mut World, c: &str, by: &str) -> R<Vec<Ev>> {
    match c {
        HUB => w.tx(by, c, &HubExec::AcceptOwnership {}, &[]),
        REWARD => w.tx(by, c, &RewExec::AcceptOwnership {}, &[]),
        DISP => w.tx(by, c, &DExec::AcceptOwnership {}, &[]),
        _ => w.tx(by, c, &RegExec::AcceptOwnership {}, &[]),
    }
}
pub fn owner_and_nominee(w: &World, c: &str) -> (String, String) {
    match c {
        HUB => {
            let cfg: basset::hub::ConfigResponse = w.query(c, &HubQuery::Config {}).unwrap_or_else(|e| qfail("hub Config", e));
            let n: basset::hub::NewOwnerResponse = w.query(c, &HubQuery::NewOwner {}).unwrap_or_else(|e| qfail("hub NewOwner", e));
            (cfg.owner, n.new_owner)
        }
        REWARD => {
            let cfg: basset::reward::ConfigResponse = w.query(c, &basset::reward::QueryMsg::Config {}).unwrap_or_else(|e| qfail("reward Config", e));
            let n: basset::reward::NewOwnerResponse = w.query(c, &basset::reward::QueryMsg::NewOwner {}).unwrap_or_else(|e| qfail("reward NewOwner", e));
            (cfg.owner, n.new_owner)
        }
        DISP => {
            let cfg: basset::dispatcher::ConfigResponse = w.query(c, &basset_sei_rewards_dispatcher::msg::QueryMsg::Config {}).unwrap_or_else(|e| qfail("dispatcher Config", e));
            let n: basset::dispatcher::NewOwnerResponse = w.query(c, &basset_sei_rewards_dispatcher::msg::QueryMsg::NewOwner {}).unwrap_or_else(|e| qfail("dispatcher NewOwner", e));
            (cfg.owner, n.new_owner)
        }
        _ => {
            use cosmwasm_std::testing::MockApi;
            use cosmwasm_std::Api;
            let cfg: basset_sei_validators_registry::registry::Config = w.query(c, &basset_sei_validators_registry::msg::QueryMsg::Config {}).unwrap_or_else(|e| qfail("registry Config", e));
            let n: basset_sei_validators_registry::registry::NewOwnerResponse = w.query(c, &basset_sei_validators_registry::msg::QueryMsg::NewOwner {}).unwrap_or_else(|e| qfail("registry NewOwner", e));
            (MockApi::default().addr_humanize(&cfg.owner).map(|a| a.to_string()).unwrap_or_default(), n.new_owner)
        }
    }
}

fn pick<'a>(xs: &[&'a str], p: u32) -> &'a str {
    xs[(p as usize) % xs.len()]
}

/// The message (as JSON) and funds of variant `vi` with generated payload fields.
fn message(vi: usize, p: u32, sender: &str) -> (Binary, Vec<Coin>) {
    let a = |k: u32| pick(&["alice", "bobby", "user0", HUB, REWARD, "mallory", KEEPER], p.wrapping_add(k)).to_string();
    let amt = Uint128::new(1 + (p as u128 % 5000));
    let opt_a = |k: u32| if (p >> k) & 1 == 1 { Some(a(k)) } else { None };
    let b = |m: Binary| (m, vec![]);
    let j = |v: &dyn erased::Ser| v.bin();
    let (c, name) = VARIANTS[vi];
    match (c, name) {
        ("hub", "update_config") => b(j(&HubExec::UpdateConfig { rewards_dispatcher_contract: opt_a(1), validators_registry_contract: opt_a(2), bsei_token_contract: None, stsei_token_contract: None, airdrop_registry_contract: opt_a(3), rewards_contract: opt_a(4), update_reward_index_addr: Some(a(5)) })),
        ("hub", "update_config_token_addresses") => b(j(&HubExec::UpdateConfig { rewards_dispatcher_contract: None, validators_registry_contract: None, bsei_token_contract: if p % 2 == 0 { Some(a(1)) } else { None }, stsei_token_contract: if p % 2 == 1 || p % 3 == 0 { Some(a(2)) } else { None }, airdrop_registry_contract: None, rewards_contract: None, update_reward_index_addr: None })),
        ("hub", "update_params") => b(j(&HubExec::UpdateParams { epoch_period: Some(1 + p as u64 % 100), unbonding_period: None, peg_recovery_fee: Some(Decimal::permille(p as u64 % 1000)), er_threshold: None, paused: Some(p % 7 == 0), reward_denom: None })),
        ("hub", "set_owner") | ("reward", "set_owner") | ("dispatcher", "set_owner") | ("registry", "set_owner") => {
            let n = if p % 3 == 0 { sender.to_string() } else { a(1) };
            match c {
                "hub" => b(j(&HubExec::SetOwner { new_owner_addr: n })),
                "reward" => b(j(&RewExec::SetOwner { new_owner_addr: n })),
                "dispatcher" => b(j(&DExec::SetOwner { new_owner_addr: n })),
                _ => b(j(&RegExec::SetOwner { new_owner_addr: n })),
            }
        }
        ("hub", "accept_ownership") => b(j(&HubExec::AcceptOwnership {})),
        ("reward", "accept_ownership") => b(j(&RewExec::AcceptOwnership {})),
        ("dispatcher", "accept_ownership") => b(j(&DExec::AcceptOwnership {})),
        ("registry", "accept_ownership") => b(j(&RegExec::AcceptOwnership {})),
        ("hub", "bond_rewards") => (j(&HubExec::BondRewards {}), vec![Coin::new(amt.u128(), USEI)]),
        ("hub", "update_global_index") => b(j(&HubExec::UpdateGlobalIndex { airdrop_hooks: if p % 4 == 0 { Some(vec![to_json_binary(&"hook").unwrap()]) } else { None } })),
        ("hub", "redelegate_proxy") => b(j(&HubExec::RedelegateProxy { src_validator: val(0), redelegations: vec![(val(1), Coin::new(amt.u128(), USEI))] })),
        ("hub", "swap_hook") => b(j(&HubExec::SwapHook { airdrop_token_contract: pick(&[FAKE20, STSEI, FAKE20], p).to_string(), airdrop_swap_contract: SINK.into(), swap_msg: to_json_binary(&"swap").unwrap() })),
        ("hub", "claim_airdrop") => b(j(&HubExec::ClaimAirdrop { airdrop_token_contract: pick(&[BSEI, STSEI, FAKE20], p).to_string(), airdrop_contract: SINK.into(), airdrop_swap_contract: SINK.into(), claim_msg: to_json_binary(&"claim").unwrap(), swap_msg: to_json_binary(&"swap").unwrap() })),
        ("hub", "receive_unbond") => b(j(&HubExec::Receive(Cw20ReceiveMsg { sender: a(1), amount: amt, msg: hook_msg(false) }))),
        ("hub", "receive_convert") => b(j(&HubExec::Receive(Cw20ReceiveMsg { sender: a(1), amount: amt, msg: hook_msg(true) }))),
        ("reward", "update_config") => b(j(&RewExec::UpdateConfig { hub_contract: opt_a(1), reward_denom: Some("kusd2".into()), swap_contract: opt_a(2) })),
        ("reward", "update_swap_denom") => b(j(&RewExec::UpdateSwapDenom { swap_denom: "uatom".into(), is_add: p % 2 == 0 })),
        ("reward", "swap_to_reward_denom") => b(j(&RewExec::SwapToRewardDenom {})),
        ("reward", "update_global_index") => b(j(&RewExec::UpdateGlobalIndex {})),
        ("reward", "increase_balance") => b(j(&RewExec::IncreaseBalance { address: a(1), amount: amt })),
        ("reward", "decrease_balance") => b(j(&RewExec::DecreaseBalance { address: pick(&["user0", "alice"], p).to_string(), amount: Uint128::new(1 + p as u128 % 3) })),
        ("dispatcher", "swap_to_reward_denom") => b(j(&DExec::SwapToRewardDenom { bsei_total_bonded: amt, stsei_total_bonded: Uint128::new(1 + (p as u128 >> 3) % 1000) })),
        ("dispatcher", "dispatch_rewards") => b(j(&DExec::DispatchRewards {})),
        ("dispatcher", "update_config") => b(j(&DExec::UpdateConfig { hub_contract: opt_a(1), bsei_reward_contract: opt_a(2), stsei_reward_denom: None, bsei_reward_denom: if p % 2 == 0 { Some("kusd2".into()) } else { None }, krp_keeper_address: Some(a(3)), krp_keeper_rate: Some(Decimal::permille(p as u64 % 1000)) })),
        ("dispatcher", "update_swap_contract") => b(j(&DExec::UpdateSwapContract { swap_contract: a(1) })),
        ("dispatcher", "update_swap_denom") => b(j(&DExec::UpdateSwapDenom { swap_denom: "ujunk".into(), is_add: p % 2 == 0 })),
        ("dispatcher", "update_oracle_contract") => b(j(&DExec::UpdateOracleContract { oracle_contract: a(1) })),
        ("registry", "add_validator") => b(j(&RegExec::AddValidator { validator: basset_sei_validators_registry::registry::Validator { address: val((p % 5) as u8) } })),
        ("registry", "remove_validator") => b(j(&RegExec::RemoveValidator { address: val((p % 3) as u8) })),
        ("registry", "update_config") => b(j(&RegExec::UpdateConfig { hub_contract: Some(a(1)) })),
        ("bsei", "mint") | ("stsei", "mint") => b(j(&Cw20ExecuteMsg::Mint { recipient: if p % 2 == 0 { sender.to_string() } else { a(1) }, amount: amt })),
        ("bsei", "burn") | ("stsei", "burn") => b(j(&Cw20ExecuteMsg::Burn { amount: Uint128::new(1 + p as u128 % 3) })),
        ("stsei", "update_minter") => b(j(&cw20_base::msg::ExecuteMsg::UpdateMinter { new_minter: if p % 2 == 0 { Some(sender.to_string()) } else { None } })),
        ("stsei", "update_marketing") => b(j(&cw20_base::msg::ExecuteMsg::UpdateMarketing { project: Some("x".into()), description: None, marketing: Some(sender.to_string()) })),
        ("stsei", "upload_logo") => b(j(&cw20_base::msg::ExecuteMsg::UploadLogo(cw20::Logo::Url("https://example.org/logo.png".into())))),
        _ => unreachable!(),
    }
}

mod erased {
    use cosmwasm_std::{to_json_binary, Binary};
    pub trait Ser {
        fn bin(&self) -> Binary;
    }
    impl<T: serde::Serialize> Ser for T {
        fn bin(&self) -> Binary {
            to_json_binary(self).unwrap()
        }
    }
}

/// The designated principals of a variant in the given setup.
fn principals(vi: usize, s: &Setup) -> Vec<String> {
    let (c, name) = VARIANTS[vi];
    let hub_cfg: basset::hub::ConfigResponse = s.w.query(HUB, &HubQuery::Config {}).unwrap_or_else(|e| qfail("hub Config", e));
    let (owner, nominee) = match c {
        "hub" | "reward" | "dispatcher" | "registry" => owner_and_nominee(&s.w, addr_of(c)),
        _ => (String::new(), String::new()),
    };
    let some = |o: &Option<String>| o.clone().into_iter().collect::<Vec<String>>();
    match (c, name) {
        (_, "accept_ownership") => vec![nominee],
        ("hub", "update_config") | ("hub", "update_params") | (_, "set_owner") => vec![owner],
        // a second value for an already set token address is refused even for the owner
        ("hub", "update_config_token_addresses") => {
            if hub_cfg.bsei_token_contract.is_some() && hub_cfg.stsei_token_contract.is_some() {
                vec![]
            } else {
                vec![owner]
            }
        }
        ("hub", "bond_rewards") => some(&hub_cfg.reward_dispatcher_contract),
        ("hub", "update_global_index") => {
            let mut v = vec![hub_cfg.update_reward_index_addr.clone()];
            v.extend(some(&hub_cfg.validators_registry_contract));
            v
        }
        ("hub", "redelegate_proxy") => some(&hub_cfg.validators_registry_contract),
        ("hub", "swap_hook") => vec![HUB.to_string()],
        ("hub", "claim_airdrop") => some(&hub_cfg.airdrop_registry_contract),
        ("hub", "receive_unbond") | ("hub", "receive_convert") => {
            let mut v = some(&hub_cfg.bsei_token_contract);
            v.extend(some(&hub_cfg.stsei_token_contract));
            v
        }
        ("reward", "update_config") | ("reward", "update_swap_denom") => vec![owner],
        ("reward", "swap_to_reward_denom") | ("reward", "update_global_index") => some(&hub_cfg.reward_dispatcher_contract),
        ("reward", "increase_balance") | ("reward", "decrease_balance") => some(&hub_cfg.bsei_token_contract),
        ("dispatcher", "swap_to_reward_denom") | ("dispatcher", "dispatch_rewards") => vec![HUB.to_string()],
        ("dispatcher", _) => vec![owner],
        ("registry", "add_validator") => vec![owner, HUB.to_string()],
        ("registry", _) => vec![owner],
        ("bsei", _) | ("stsei", "mint") | ("stsei", "burn") | ("stsei", "update_minter") => vec![HUB.to_string()],
        // the marketing account named at instantiation (the deployer)
        ("stsei", "update_marketing") | ("stsei", "upload_logo") => vec![OWNER.to_string()],
        _ => unreachable!(),
    }
}

fn sender_addr(si: usize, s: &Setup, contract: &str) -> String {
    match SENDERS[si] {
        "owner_now" => s.owner_now.clone(),
        "nominee_now" => s.nominee_now.clone(),
        "ex_owner" => s.ex_owner.clone(),
        "hub" => HUB.into(),
        "bsei" => BSEI.into(),
        "stsei" => STSEI.into(),
        "reward" => REWARD.into(),
        "dispatcher" => DISP.into(),
        "registry" => REG.into(),
        "swap" => SWAP.into(),
        "oracle" => ORACLE.into(),
        "airdrop" => AIRDROP.into(),
        "updater" => UPDATER.into(),
        "keeper" => KEEPER.into(),
        "user" => "user0".into(),
        _ => addr_of(contract).to_string(),
    }
}

fn v(sig: &str, detail: String) -> Violation {
    Violation::new(ID, format!("{}/{}", ID, sig), detail)
}

pub struct C10;

pub fn ownership_strategy() -> BoxedStrategy<Case> {
    (0u8..4, proptest::collection::vec((0u8..5, proptest::option::weighted(0.55, 0u8..5)), 1..12))
        .prop_map(|(contract, steps)| Case::Ownership { contract, steps })
        .boxed()
}

impl Prop for C10 {
    type Case = Case;
    fn id(&self) -> &'static str {
        ID
    }
    fn rule(&self) -> String {
        format!(
            "enumeration of every privileged execute variant of the six contracts ({} variants) x {} sender classes x {} state kinds x 3 payloads, then generated triples with random payload fields and generated SetOwner / AcceptOwnership sequences against a reference (owner, nominee) model; non-trivial = a triple whose sender is not a designated principal of the variant (must be rejected), or an ownership sequence with at least one completed transfer; distinct by (state, contract, variant, sender class, payload) / sequence hash",
            VARIANTS.len(),
            SENDERS.len(),
            STATE_KINDS.len()
        )
    }
    fn assumptions(&self) -> Vec<String> {
        vec![
            "sender space is sampled by class (owner, nominee, ex-owner, every sibling contract, updater, keeper, the contract itself, an arbitrary user), not exhausted".into(),
            "'changes nothing' follows from transaction atomicity of the platform (asserted anyway)".into(),
        ]
    }
    fn strategy(&self, _tier: Tier) -> BoxedStrategy<Case> {
        prop_oneof![
            2 => (0u8..STATE_KINDS.len() as u8, 0u8..VARIANTS.len() as u8, 0u8..SENDERS.len() as u8, any::<u32>())
                .prop_map(|(state, variant, sender, payload)| Case::Triple { state, variant, sender, payload }),
            1 => ownership_strategy(),
        ]
        .boxed()
    }
    fn cases(&self, tier: Tier) -> u32 {
        match tier {
            Tier::Quick => 8000,
            Tier::Thorough => 100_000,
        }
    }
    fn fixed_cases(&self, tier: Tier) -> Vec<Case> {
        let mut v = vec![];
        let payloads: u32 = if tier == Tier::Thorough { 12 } else { 3 };
        for state in 0..STATE_KINDS.len() as u8 {
            for variant in 0..VARIANTS.len() as u8 {
                for sender in 0..SENDERS.len() as u8 {
                    if state == 5 {
                        // every "exactly one sibling registered" and "exactly one sibling missing" deployment
                        for bit in 0..6u32 {
                            v.push(Case::Triple { state, variant, sender, payload: 1 << bit });
                            v.push(Case::Triple { state, variant, sender, payload: 63 ^ (1 << bit) });
                        }
                        continue;
                    }
                    for p in 0..payloads {
                        v.push(Case::Triple { state, variant, sender, payload: p.wrapping_mul(2654435761).wrapping_add(p) });
                    }
                }
            }
        }
        v
    }
    fn check(&self, c: &Case, _lenient: bool) -> CaseResult {
        let mut out = CaseResult::default();
        out.work = 1;
        match c {
            Case::Triple { state, variant, sender, payload } => {
                let (vi, si) = (*variant as usize % VARIANTS.len(), *sender as usize % SENDERS.len());
                let mut s = setup(*state % STATE_KINDS.len() as u8, *payload);
                let (cname, vname) = VARIANTS[vi];
                let contract = addr_of(cname);
                let from = sender_addr(si, &s, cname);
                let allowed = principals(vi, &s);
                let (msg, funds) = message(vi, *payload, &from);
                for f in &funds {
                    s.w.mint(&from, &f.denom, f.amount.u128());
                }
                // give tokens to the sender so that a burn would have something to burn
                if vname == "burn" {
                    let _ = s.w.tx(HUB, contract, &Cw20ExecuteMsg::Mint { recipient: from.clone(), amount: Uint128::new(10) }, &[]);
                }
                let before = s.w.clone();
                let res = s.w.tx_raw(&from, contract, msg.clone(), &funds);
                let authorised = allowed.contains(&from);
                if !authorised {
                    out.nontrivial = true;
                    out.label("unauthorised_sender_tried");
                    // handler level: the addressed contract's own handler must refuse, whatever the contracts it
                    // would have called next do (a guard that only "works" because a later message fails is no guard)
                    if let Ok(n) = before.handler_accepts(&from, contract, msg.clone(), &funds) {
                        out.fail(v(
                            &format!("unauthorised-accepted-by-handler/{}/{}/{}", cname, vname, SENDERS[si]),
                            format!(
                                "state '{}': the {} handler accepted {} from {} ({}) and returned {} messages; designated principals: {:?}; message {}",
                                STATE_KINDS[*state as usize % STATE_KINDS.len()], cname, vname, from, SENDERS[si], n, allowed, String::from_utf8_lossy(msg.as_slice())
                            ),
                        ));
                        return out;
                    }
                    if res.is_ok() || !s.w.same_state(&before) {
                        out.fail(v(
                            &format!("unauthorised-accepted/{}/{}/{}", cname, vname, SENDERS[si]),
                            format!(
                                "state '{}': {} {} sent by {} ({}) was {}; designated principals: {:?}; message {}",
                                STATE_KINDS[*state as usize % STATE_KINDS.len()], cname, vname, from, SENDERS[si],
                                if res.is_ok() { "accepted" } else { "rejected but changed state" }, allowed, String::from_utf8_lossy(msg.as_slice())
                            ),
                        ));
                    }
                } else {
                    // vacuity guard: the designated principal gets past the sender check
                    out.label("principal_tried");
                    match &res {
                        Ok(_) => out.count(&format!("principal_accepted/{}/{}", cname, vname), 1),
                        Err(e) => {
                            let el = e.to_lowercase();
                            if el.contains("unauthorized") || el.contains("unauthorised") {
                                out.count(&format!("principal_refused_as_unauthorized/{}/{}", cname, vname), 1);
                            } else {
                                out.count(&format!("principal_failed_other_reason/{}/{}", cname, vname), 1);
                            }
                        }
                    }
                }
            }
            Case::Ownership { contract, steps } => {
                let c_addr = [HUB, REWARD, DISP, REG][*contract as usize % 4];
                let mut s = setup(0, 0);
                let actors = [OWNER, "cand1", "cand2", "cand3", HUB];
                let (mut owner, mut nominee) = (OWNER.to_string(), OWNER.to_string());
                let mut completed = 0;
                for (i, (actor, action)) in steps.iter().enumerate() {
                    out.work += 1;
                    let by = actors[*actor as usize % actors.len()];
                    let before = s.w.clone();
                    let (res, expect_ok) = match action {
                        Some(cand) => {
                            let new = actors[*cand as usize % actors.len()];
                            let ok = by == owner;
                            let r = set_owner(&mut s.w, c_addr, by, new);
                            if ok && r.is_ok() {
                                nominee = new.to_string();
                            }
                            (r, ok)
                        }
                        None => {
                            let ok = by == nominee;
                            let r = accept(&mut s.w, c_addr, by);
                            if ok && r.is_ok() {
                                if owner != nominee {
                                    completed += 1;
                                }
                                owner = nominee.clone();
                            }
                            (r, ok)
                        }
                    };
                    if res.is_ok() != expect_ok {
                        out.fail(v(
                            &format!("ownership/{}/{}", if action.is_some() { "set_owner" } else { "accept_ownership" }, if expect_ok { "refused-for-principal" } else { "accepted-for-non-principal" }),
                            format!("{} step {}: {:?} by {} -> {:?}; reference owner {}, nominee {}", c_addr, i, action.map(|c| actors[c as usize % actors.len()]), by, res.as_ref().map(|_| "ok"), owner, nominee),
                        ));
                        return out;
                    }
                    if res.is_err() && !s.w.same_state(&before) {
                        out.fail(v("ownership/rejected-changed-state", format!("{} step {}", c_addr, i)));
                        return out;
                    }
                    let (o, n) = owner_and_nominee(&s.w, c_addr);
                    if o != owner || n != nominee {
                        out.fail(v(
                            "ownership/queries-differ-from-model",
                            format!("{} after step {}: Config owner {}, NewOwner {}; reference owner {}, nominee {}", c_addr, i, o, n, owner, nominee),
                        ));
                        return out;
                    }
                }
                // an ex-owner has no power: every original-owner message must now be refused if ownership moved
                if owner != OWNER {
                    let before = s.w.clone();
                    let r = set_owner(&mut s.w, c_addr, OWNER, "cand1");
                    if r.is_ok() || !s.w.same_state(&before) {
                        out.fail(v("ownership/ex-owner-still-powerful", format!("{}: the former owner can still nominate after ownership moved to {}", c_addr, owner)));
                        return out;
                    }
                }
                if completed > 0 {
                    out.nontrivial = true;
                    out.label("ownership_sequence_with_completed_transfer");
                }
            }
        }
        out
    }
}
