//! Helpers shared by several property oracles.
use crate::obs::Obs;
use crate::util::*;
use basset::hub::UnbondHistoryResponse;

/// Batches whose `released` flag flipped between two observations.
pub fn release_group<'a>(o0: &Obs, o1: &'a Obs) -> Vec<&'a UnbondHistoryResponse> {
    o1.history
        .iter()
        .filter(|h| h.released && !o0.hist(h.batch_id).map(|g| g.released).unwrap_or(false))
        .collect()
}

/// All recorded claims (user, bsei, stsei) on one batch.
pub fn claims_on(o: &Obs, batch: u64) -> Vec<(String, u128, u128)> {
    let mut v = vec![];
    for (u, reqs) in &o.requests {
        for (b, x, y) in reqs {
            if *b == batch {
                v.push((u.clone(), *x, *y));
            }
        }
    }
    v
}

/// What one claim pays at the batch's (final) withdraw rates.
pub fn claim_value(h: &UnbondHistoryResponse, bsei: u128, stsei: u128) -> u128 {
    mul_floor(bsei, h.bsei_withdraw_rate) + mul_floor(stsei, h.stsei_withdraw_rate)
}

/// Sum over all users of claims on released batches.
pub fn released_claims_total(o: &Obs) -> u128 {
    let mut t = 0u128;
    for reqs in o.requests.values() {
        for (b, x, y) in reqs {
            if let Some(h) = o.hist(*b) {
                if h.released {
                    t += claim_value(h, *x, *y);
                }
            }
        }
    }
    t
}

/// Value of one user's claims on released batches.
pub fn released_value_of(o: &Obs, user: &str) -> u128 {
    let mut t = 0u128;
    for (b, x, y) in o.reqs(user) {
        if let Some(h) = o.hist(*b) {
            if h.released {
                t += claim_value(h, *x, *y);
            }
        }
    }
    t
}

/// coins undelegated for a batch according to its history entry
pub fn batch_coins(h: &UnbondHistoryResponse) -> (u128, u128) {
    (mul_floor(h.bsei_amount.u128(), h.bsei_applied_exchange_rate), mul_floor(h.stsei_amount.u128(), h.stsei_applied_exchange_rate))
}
