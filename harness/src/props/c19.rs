//! C19 — a global index update delivers all staking rewards to the right parties.
use super::c17::{exact_share, zero_send_from_error};
use super::*;
use crate::chain::{Ev, StubMode};
use crate::util::*;
use basset_sei_rewards_dispatcher::msg::ExecuteMsg as DExec;
use cosmwasm_std::{Decimal, Uint256};

pub struct C19 {
    nontrivial: bool,
    lenient: bool,
}

const ID: &str = "C19";

pub fn profile(t: Tier) -> Profile {
    let mut p = Profile::base();
    p.accrue = 16;
    p.update_index = 12;
    p.registry = 4;
    p.donate = 4;
    p.bond = 12;
    p.unbond = 8;
    p.transfer = 3;
    p.claim = 3;
    p.slash = 3;
    p.advance = 8;
    p.prefix_bonds = 2..5;
    p.len = 6..40;
    long(p, t)
}

pub struct C19Prop;

impl Prop for C19Prop {
    type Case = History;
    fn id(&self) -> &'static str {
        ID
    }
    fn rule(&self) -> String {
        "generated full-system histories with reward rounds: rewards of both coins, a third swappable coin and an unknown coin accrue on any subset of validators, index updates by the updater and through validator removal, in-flight batches, any keeper rate and price, repeated and dust updates; end-state accounting equations across hub, dispatcher, reward contract, tokens and chain on every update; non-trivial = an update delivering rewards from >= 2 validators with both pools non-empty; classes: in-flight batch, via removal, dust; distinct by hash of the case".into()
    }
    fn assumptions(&self) -> Vec<String> {
        vec![super::ENVELOPE.to_string(), "swap and oracle behave as the specified stubs (E5)".into()]
    }
    fn strategy(&self, tier: Tier) -> BoxedStrategy<History> {
        use proptest::strategy::Strategy;
        proptest::strategy::Union::new_weighted(vec![
            (4, history_strategy(&profile(tier), cfg_strategy())),
            (5, reward_scenario_strategy(&profile(tier), cfg_strategy())),
            // stake left on an unregistered validator (blocked removal) must still have its rewards withdrawn
            (2, (registry_scenario_strategy(&profile(tier), cfg_strategy().prop_map(|mut c| {
                if c.n_vals < 3 {
                    c.n_vals += 2;
                    c.n_reg = c.n_reg.max(2).min(c.n_vals);
                }
                c
            }).boxed()), proptest::collection::vec((0u8..5, 0u8..2, amt_strategy()), 1..5))
                .prop_map(|(mut h, acc)| {
                    // rewards accrue right after the second (often blocked) removal, then an index update
                    let pos = h.ops.iter().rposition(|o| matches!(o, Op::RemoveVal { .. })).map(|p| p + 1).unwrap_or(h.ops.len());
                    let mut ins: Vec<Op> = acc.into_iter().map(|(v, coin, amt)| Op::Accrue { v, coin, amt }).collect();
                    ins.push(Op::UpdateIndex { by: 0 });
                    for (k, o) in ins.into_iter().enumerate() {
                        h.ops.insert(pos + k, o);
                    }
                    h
                })
                .boxed()),
        ])
        .boxed()
    }
    fn cases(&self, tier: Tier) -> u32 {
        match tier {
            Tier::Quick => 8000,
            Tier::Thorough => 60000,
        }
    }
    fn check(&self, case: &History, lenient: bool) -> CaseResult {
        // exploration: zero-amount sends of the dispatcher are recorded, skipped and reported under their known
        // signatures; strict replay lets the bank reject them
        run_history(case, lenient, |_, _, _| C19 { nontrivial: false, lenient })
    }
}

fn v(sig: &str, detail: String) -> Violation {
    Violation::new(ID, format!("{}/{}", ID, sig), detail)
}

/// sum over all listed holders of the decimal accrual (pending + (global - index) * balance), in 1e-18 units
fn total_accrual_atomics(o: &Obs) -> Uint256 {
    let g = o.reward.state.global_index.atomics();
    let mut t = Uint256::zero();
    for h in o.reward.holders.values() {
        let d = Uint256::from(g.u128().saturating_sub(h.index.atomics().u128()));
        // (global - index) * balance, truncated to 18 decimals like the contract's Decimal arithmetic
        t += d * Uint256::from(h.balance.u128()) + Uint256::from(h.pending_rewards.atomics().u128());
    }
    t
}

impl Checker for C19 {
    fn step(&mut self, cx: &StepCx, out: &mut CaseResult) {
        let (o0, o1, step) = (cx.o0, cx.o1, cx.step);
        let by_updater = matches!(&step.rop, ROp::UpdateIndex { by } if by == UPDATER);
        let via_removal = matches!(&step.rop, ROp::RemoveVal { .. } | ROp::Redelegations { .. })
            && step.ok()
            && execs_to(step.evs(), HUB).iter().any(|(_, m, _)| m.starts_with("{\"update_global_index\""));
        if !by_updater && !via_removal {
            return;
        }
        let stubs_ok = cx.pre.swap_mode == StubMode::Ok && cx.pre.oracle_mode == StubMode::Ok;
        if !stubs_ok || o0.params.paused.unwrap_or(false) {
            return;
        }
        // ---- the transaction executes whenever stake is bonded
        if o0.books() == 0 || o0.delegated == 0 {
            return;
        }
        if let Err(e) = &step.res {
            let sig = match zero_send_from_error(e) {
                Some(z) => format!("update-fails/{}", z),
                None => "update-fails".to_string(),
            };
            let x = v(&sig, format!("{} with {} + {} booked and {} pending rewards: {}", step.desc(), o0.state.total_bond_bsei_amount, o0.state.total_bond_stsei_amount, cx.pre.pending_rewards(HUB), e));
            if crate::runner::tolerated(&x.signature) {
                out.known.push(x);
            } else {
                out.fail(x);
            }
            return;
        }
        let evs = step.evs();
        for e in evs {
            if let Ev::ZeroSend { from, to, denom } = e {
                if from == DISP {
                    let role = if to == KEEPER { "keeper" } else if to == REWARD { "reward" } else { "other" };
                    let coin = if denom == KUSD { "bsei_coin" } else if denom == USEI { "stsei_coin" } else { "other_coin" };
                    let x = v(&format!("update-fails/zero-send/{}/{}", role, coin), format!("{}: the dispatcher emits a bank send of zero {} to {}; the bank rejects it and the whole update fails", step.desc(), denom, to));
                    if self.lenient && crate::runner::is_known(&x.signature) {
                        out.known.push(x);
                    } else {
                        out.fail(x);
                        return;
                    }
                }
            }
        }
        if via_removal {
            out.label("update_via_validator_removal");
        }
        if o0.history.iter().any(|h| !h.released) || !o0.batch.requested_bsei_with_fee.is_zero() || !o0.batch.requested_stsei.is_zero() {
            out.label("update_with_in_flight_batch");
        }
        // ---- every validator's rewards were withdrawn
        let vals_with_rewards: Vec<&String> = o0.delegations.keys().filter(|val| cx.pre.rewards.iter().any(|((d, vv, _), a)| d == HUB && vv == *val && *a > 0)).collect();
        for val in o0.delegations.keys() {
            if cx.post.rewards.iter().any(|((d, vv, _), a)| d == HUB && vv == val && *a > 0) {
                out.fail(v("rewards-left-on-validator", format!("{}: pending rewards remain on {}", step.desc(), val)));
                return;
            }
        }
        // ---- nothing is left behind in the dispatcher
        for d in [USEI, KUSD, UATOM, UIBC] {
            if o1.bank_of(DISP, d) != 0 {
                out.fail(v("coins-left-in-dispatcher", format!("{}: {} {} left on the dispatcher", step.desc(), o1.bank_of(DISP, d), d)));
                return;
            }
        }
        // ---- what was available: dispatcher balances + the hub's pending rewards (paid to the withdraw address)
        let pend = |denom: &str| -> u128 { cx.pre.rewards.iter().filter(|((d, _, dn), _)| d == HUB && dn == denom).map(|(_, a)| *a).sum() };
        let avail_st = o0.bank_of(DISP, USEI) + pend(USEI);
        let avail_b = o0.bank_of(DISP, KUSD) + pend(KUSD) + o0.bank_of(DISP, UATOM) + pend(UATOM) + o0.bank_of(DISP, UIBC) + pend(UIBC);
        // ---- re-bond: booked stSei grows by exactly the coins attached to BondRewards = its delegations
        let mut attached = 0u128;
        for (s, m, f) in execs_to(evs, HUB) {
            if m.starts_with("{\"bond_rewards\"") {
                if s != DISP {
                    out.fail(v("bond-rewards-sender", format!("{}: BondRewards sent by {}", step.desc(), s)));
                    return;
                }
                attached += f.iter().filter(|c| c.denom == USEI).map(|c| c.amount.u128()).sum::<u128>();
            }
        }
        let delegated_now = sum_delegate(evs, HUB);
        let (bs0, bs1) = (o0.state.total_bond_stsei_amount.u128(), o1.state.total_bond_stsei_amount.u128());
        if bs1 != bs0 + attached || delegated_now != attached || o1.state.total_bond_bsei_amount != o0.state.total_bond_bsei_amount {
            out.fail(v(
                "rebond-accounting",
                format!("{}: stSei pool {} -> {}, bSei pool {} -> {}, coins attached to BondRewards {}, delegated {}", step.desc(), bs0, bs1, o0.state.total_bond_bsei_amount, o1.state.total_bond_bsei_amount, attached, delegated_now),
            ));
            return;
        }
        // ---- no token is minted, burnt or moved
        if o1.stsei != o0.stsei || o1.bsei != o0.bsei {
            out.fail(v("token-balances-changed", format!("{}: a token supply or balance changed", step.desc())));
            return;
        }
        // ---- rates: stSei = (backing + re-bonded) / claims, bSei untouched
        if o1.delegated > 0 {
            let es = rate_of(bs0 + attached, o0.stsei_claims());
            if o1.state.stsei_exchange_rate != es || o1.state.bsei_exchange_rate != o0.state.bsei_exchange_rate {
                out.fail(v(
                    "rates-after-update",
                    format!("{}: stSei rate {} (expected {}), bSei rate {} -> {}", step.desc(), o1.state.stsei_exchange_rate, es, o0.state.bsei_exchange_rate, o1.state.bsei_exchange_rate),
                ));
                return;
            }
        }
        // ---- hub liquid balance, claims and history untouched
        if o1.bank_of(HUB, USEI) != o0.bank_of(HUB, USEI) || o1.requests != o0.requests || o1.history != o0.history || o1.batch != o0.batch {
            out.fail(v("unbonders-affected", format!("{}: hub balance {} -> {}, or claims / history changed", step.desc(), o0.bank_of(HUB, USEI), o1.bank_of(HUB, USEI))));
            return;
        }
        // ---- keeper fee: floor(balance x rate) of what the dispatcher held at dispatch time
        let rate = cx.cfg.keeper_rate.dec();
        let keeper_b = bank_sent(evs, DISP, KEEPER, KUSD);
        let keeper_st = bank_sent(evs, DISP, KEEPER, USEI);
        let to_reward = bank_sent(evs, DISP, REWARD, KUSD);
        let held_b = keeper_b + to_reward;
        let held_st = keeper_st + attached;
        if keeper_b != mul_floor(held_b, rate) || keeper_st != mul_floor(held_st, rate) {
            out.fail(v(
                "keeper-fee",
                format!("{}: keeper got {} of {} kusd and {} of {} usei at rate {}", step.desc(), keeper_b, held_b, keeper_st, held_st, rate),
            ));
            return;
        }
        if o1.bank_of(KEEPER, KUSD) != o0.bank_of(KEEPER, KUSD) + keeper_b || o1.bank_of(KEEPER, USEI) != o0.bank_of(KEEPER, USEI) + keeper_st {
            out.fail(v("keeper-balance", format!("{}: keeper balances do not match what was sent", step.desc())));
            return;
        }
        // ---- the split follows the bonded stake (C17's oracle on the observed balances)
        // the bonded pair the hub passed to the dispatcher: its booked totals as last recognised (the State
        // query shows them synced with any slashing since; the two differ by pro-rata rounding only)
        let (vb, vst) = (o0.state.total_bond_bsei_amount.u128(), o0.state.total_bond_stsei_amount.u128());
        let mut pair: Option<(u128, u128)> = None;
        for (s, m, _) in execs_to(evs, DISP) {
            if s == HUB && m.starts_with("{\"swap_to_reward_denom\"") {
                if let Ok(DExec::SwapToRewardDenom { bsei_total_bonded, stsei_total_bonded }) = cosmwasm_std::from_json::<DExec>(m.as_bytes()) {
                    pair = Some((bsei_total_bonded.u128(), stsei_total_bonded.u128()));
                }
            }
        }
        let (b, st) = match pair {
            Some(p) => p,
            None => {
                out.fail(v("swap-message-missing", format!("{}: the hub did not ask the dispatcher to swap", step.desc())));
                return;
            }
        };
        let consistent = if o0.delegated >= b + st {
            (b, st) == (vb, vst)
        } else {
            b + st > 0 && vb + vst == o0.delegated && absdiff(vb, muldiv(o0.delegated, b, b + st)) <= 2
        };
        if !consistent {
            out.fail(v(
                "bonded-pair-passed",
                format!("{}: the hub passed bonded pair {} / {} to the dispatcher but reports {} / {} with {} delegated", step.desc(), b, st, vb, vst, o0.delegated),
            ));
            return;
        }
        let (share, tau) = exact_share(avail_st, avail_b, cx.cfg.price.dec(), st, b);
        if absdiff(held_st, share) > tau {
            out.fail(v(
                "split",
                format!("{}: stSei side got {} usei of ({} usei + {} kusd at {}), exact share by stake {}/{} is {} (tolerance {})", step.desc(), held_st, avail_st, avail_b, cx.cfg.price.dec(), st, st + b, share, tau),
            ));
            return;
        }
        // ---- bSei holders: total claimable grows by what was delivered (within dust); nothing is lost otherwise
        let bank1 = o1.bank_of(REWARD, KUSD);
        let prev0 = o0.reward.state.prev_reward_balance.u128();
        if bank1 != o0.bank_of(REWARD, KUSD) + to_reward {
            out.fail(v("reward-delivery", format!("{}: reward contract balance {} -> {} but {} was sent", step.desc(), o0.bank_of(REWARD, KUSD), bank1, to_reward)));
            return;
        }
        if o0.reward.state.total_balance.is_zero() {
            if o1.reward.state.prev_reward_balance.u128() != prev0 || o1.reward.state.global_index != o0.reward.state.global_index {
                out.fail(v("index-moved-without-holders", format!("{}: reward state {:?} -> {:?}", step.desc(), o0.reward.state, o1.reward.state)));
                return;
            }
        } else {
            let indexed = bank1 - prev0; // everything not yet indexed is indexed now
            if o1.reward.state.prev_reward_balance.u128() != bank1 {
                out.fail(v("recorded-balance", format!("{}: recorded reward balance {} but the contract holds {}", step.desc(), o1.reward.state.prev_reward_balance, bank1)));
                return;
            }
            let growth = total_accrual_atomics(o1) - total_accrual_atomics(o0);
            let hi = Uint256::from(indexed) * Uint256::from(ONE);
            let slack = Uint256::from(ONE) + Uint256::from(1_000_000u128) * Uint256::from(o1.reward.holders.len() as u128 + 1);
            if growth > hi || growth + slack < hi {
                out.fail(v(
                    "holders-accrual-growth",
                    format!("{}: {} kusd newly indexed over {} bSei, but the holders' total accrual grew by {} e-18", step.desc(), indexed, o0.reward.state.total_balance, growth),
                ));
                return;
            }
        }
        // ---- classification
        if vals_with_rewards.len() >= 2 && b > 0 && st > 0 {
            self.nontrivial = true;
            out.label("rewards_from_2plus_validators_both_pools");
        }
        if (avail_st > 0 && avail_st < 20) || (avail_b > 0 && avail_b < 20) {
            out.label("dust_rewards");
        }
        if avail_st + avail_b == 0 {
            out.label("empty_update");
        }
        let _ = Decimal::one();
    }
    fn finish(&mut self, _cfg: &Cfg, _w: &World, _o: &Obs, out: &mut CaseResult) {
        out.nontrivial = self.nontrivial;
    }
}
