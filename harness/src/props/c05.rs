//! C05 — the peg-recovery fee is bounded and never over-collects past the 1:1 peg.
use super::*;
use crate::util::*;
use cosmwasm_std::Decimal;
use proptest::strategy::Strategy;

pub struct C05 {
    nontrivial: bool,
}

const ID: &str = "C05";

/// slashed states, the four fee paths, amounts from 1 unit to more than the pool
pub fn profile(t: Tier) -> Profile {
    let mut p = Profile::base();
    p.bond = 12;
    p.unbond = 10;
    p.convert = 14;
    p.hook_from = 2;
    p.slash = 10;
    p.withdraw = 2;
    p.advance = 5;
    p.accrue = 1;
    p.update_index = 1;
    p.registry = 0;
    p.transfer = 1;
    p.send_sink = 0;
    p.direct = 0;
    p.fake_hook = 0;
    p.claim = 0;
    p.donate = 0;
    p.params = 3;
    p.prefix_bonds = 2..4;
    p.prefix_slash_pct = 70;
    p.len = 3..16;
    long(p, t)
}

/// the fee only exists below the threshold: bias the threshold towards 1
fn cfgs() -> BoxedStrategy<Cfg> {
    (cfg_strategy(), 0u8..4)
        .prop_map(|(mut c, k)| {
            if k > 0 && c.threshold.atomics() < ONE * 9 / 10 {
                c.threshold = Dec::new(ONE);
            }
            c
        })
        .boxed()
}

pub fn prop() -> HistProp {
    HistProp {
        id: ID,
        rule: "generated short histories (bond both tokens, slash 0.1%-50%, one or more fee-path operations: bond, unbond, convert in both directions, with amounts from 1 unit to the whole balance / pool, fee and threshold from grids and random values); the credited result is compared with the exact no-fee and maximal-fee results and the post-state peg gap is bounded; non-trivial = a fee was actually charged; classes record which cap bound; distinct by hash of the case",
        profile,
        cfgs,
        quick: 12000,
        thorough: 300000,
        mk: |_, _, _| Box::new(C05 { nontrivial: false }),
        // whole-pool operations on large non-round pools (the restoring cap is the deciding term there)
        extra: Some((4, |_| peg_scenario_strategy(cfgs()))),
        many_batches: 0,
        zero_arrival: 0,
    }
}

fn v(sig: &str, detail: String) -> Violation {
    Violation::new(ID, format!("{}/{}", ID, sig), detail)
}

impl Checker for C05 {
    fn step(&mut self, cx: &StepCx, out: &mut CaseResult) {
        let (o0, o1, step) = (cx.o0, cx.o1, cx.step);
        if !step.ok() || o0.delegated == 0 {
            return;
        }
        let (rb, rs) = (o0.state.bsei_exchange_rate, o0.state.stsei_exchange_rate);
        let (fee, thr) = (o0.params.peg_recovery_fee, o0.params.er_threshold);
        // (path, result, no-fee result N, result at the maximal fee)
        let (path, result, n, at_max): (&str, u128, u128, u128) = match &step.rop {
            ROp::Bond { st: false, amount, .. } => {
                let n = div_floor(*amount, rb);
                ("bond", o1.bsei.supply.saturating_sub(o0.bsei.supply), n, n - mul_floor(n, fee))
            }
            ROp::Hook { st: false, convert: false, amount, caller, .. } => {
                // credited claim = growth of the caller's entry in the batch that was open
                let open = o0.batch.id;
                let e0 = o0.reqs(caller).iter().find(|r| r.0 == open).map(|r| r.1).unwrap_or(0);
                let e1 = o1.reqs(caller).iter().find(|r| r.0 == open).map(|r| r.1).unwrap_or(0);
                ("unbond", e1.saturating_sub(e0), *amount, *amount - mul_floor(*amount, fee))
            }
            ROp::Hook { st: true, convert: true, amount, .. } => {
                let d = mul_floor(*amount, rs);
                let n = div_floor(d, rb);
                ("convert_stsei_to_bsei", o1.bsei.supply.saturating_sub(o0.bsei.supply), n, n - mul_floor(n, fee))
            }
            ROp::Hook { st: false, convert: true, amount, .. } => {
                let n = div_floor(mul_floor(*amount, rb), rs);
                let a_max = *amount - mul_floor(*amount, fee);
                ("convert_bsei_to_stsei", o1.stsei.supply.saturating_sub(o0.stsei.supply), n, div_floor(mul_floor(a_max, rb), rs))
            }
            _ => return,
        };
        out.count(&format!("fee_path/{}", path), 1);
        if rb >= thr && result != n {
            out.fail(v(
                &format!("fee-charged-at-or-above-threshold/{}", path),
                format!("{}: bSei rate {} >= threshold {} but result {} != no-fee result {}", step.desc(), rb, thr, result, n),
            ));
            return;
        }
        if result > n {
            out.fail(v(
                &format!("negative-fee/{}", path),
                format!("{}: result {} exceeds the no-fee result {} (rate {})", step.desc(), result, n, rb),
            ));
            return;
        }
        if result < at_max {
            out.fail(v(
                &format!("fee-above-max/{}", path),
                format!("{}: result {} is below the result at the maximal fee {} (no-fee {}, fee rate {}, bSei rate {})", step.desc(), result, at_max, n, fee, rb),
            ));
            return;
        }
        if result < n {
            self.nontrivial = true;
            out.label(if result == at_max { "proportional_cap_binds" } else { "restoring_cap_binds" });
            out.label(&format!("fee_charged/{}", path));
        }
        // never past the peg: an operation that starts below the peg leaves backing <= claims + 2
        // (claims may have dropped to zero: a whole-pool exit must not leave backing behind either)
        if rb < Decimal::one() {
            let backing = o1.state.total_bond_bsei_amount.u128();
            let claims = o1.bsei_claims();
            if backing > claims + 2 {
                out.fail(v(
                    &format!("overshoot/{}", path),
                    format!(
                        "{}: started at bSei rate {} (backing {} / claims {}), ended with backing {} > claims {} + 2 (rate {})",
                        step.desc(), rb, o0.state.total_bond_bsei_amount, o0.bsei_claims(), backing, claims, o1.state.bsei_exchange_rate
                    ),
                ));
            }
        }
    }
    fn finish(&mut self, _cfg: &Cfg, _w: &World, _o: &Obs, out: &mut CaseResult) {
        out.nontrivial = self.nontrivial;
    }
}
