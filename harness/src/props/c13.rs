//! C13 — removing a validator moves its whole stake to the remaining ones.
use super::*;
use crate::chain::Ev;

pub struct C13 {
    nontrivial: bool,
}

const ID: &str = "C13";

pub fn prop() -> HistProp {
    HistProp {
        id: ID,
        rule: "generated histories with registry operations at arbitrary points (removal of registered / unregistered / last validators, with pending rewards, in-flight batches, blocked redelegations, re-addition, Redelegations by anyone); chain-state equations on the removal transaction; non-trivial = a removal that moved > 0 stake onto >= 2 remaining validators; classes: pending rewards, in-flight batch, blocked redelegation, removal of an unregistered validator, last validator; distinct by hash of the case",
        profile: |t| {
            let mut p = Profile::base();
            p.registry = 14;
            p.accrue = 7;
            p.bond = 12;
            p.unbond = 8;
            p.advance = 8;
            p.slash = 3;
            // the hub is sometimes paused around a removal (a removal must then fail as a whole, not strand the stake)
            p.pause = 2;
            p.update_index = 2;
            p.prefix_bonds = 2..5;
            p.len = 6..40;
            long(p, t)
        },
        cfgs: || {
            use proptest::strategy::Strategy;
            // registry operations need several chain validators
            cfg_strategy().prop_map(|mut c| {
                if c.n_vals < 3 {
                    c.n_vals += 2;
                    c.n_reg = c.n_reg.max(2).min(c.n_vals);
                }
                c
            }).boxed()
        },
        quick: 4000,
        thorough: 60000,
        mk: |_, _, _| Box::new(C13 { nontrivial: false }),
        extra: Some((4, |t| registry_scenario_strategy(&prop().profile.clone()(t), (prop().cfgs)()))),
        many_batches: 0,
        zero_arrival: 0,
    }
}

fn v(sig: &str, detail: String) -> Violation {
    Violation::new(ID, format!("{}/{}", ID, sig), detail)
}

impl Checker for C13 {
    fn step(&mut self, cx: &StepCx, out: &mut CaseResult) {
        let (o0, o1, step) = (cx.o0, cx.o1, cx.step);
        match &step.rop {
            ROp::RemoveVal { validator: val } => {
                let was_registered = o0.registry.contains(val);
                let last = was_registered && o0.registry.len() == 1;
                if last {
                    out.label("removal_of_last_validator");
                    if step.ok() || !cx.post.same_state(cx.pre) {
                        out.fail(v("last-validator-removed", format!("{}: registry was {:?}", step.desc(), o0.registry)));
                    }
                    return;
                }
                if !step.ok() {
                    // a removal may fail for reasons outside this property (paused hub, stubs failing ...): nothing
                    // may have changed then
                    if !cx.post.same_state(cx.pre) {
                        out.fail(v("failed-removal-changed-state", step.desc()));
                    }
                    return;
                }
                if !was_registered {
                    out.label("removal_of_unregistered_validator");
                }
                if o1.registry.contains(val) || o1.registry.is_empty() {
                    out.fail(v("registry-after-removal", format!("{}: registry {:?} -> {:?}", step.desc(), o0.registry, o1.registry)));
                    return;
                }
                let mut expect_reg = o0.registry.clone();
                expect_reg.retain(|x| x != val);
                if o1.registry != expect_reg {
                    out.fail(v("registry-after-removal", format!("{}: registry {:?} -> {:?}", step.desc(), o0.registry, o1.registry)));
                    return;
                }
                let d = *o0.delegations.get(val).unwrap_or(&0);
                let blocked = cx.pre.redelegations.iter().any(|r| r.delegator == HUB && r.dst == *val);
                let evs = step.evs();
                let red: Vec<(&String, &String, u128)> = evs
                    .iter()
                    .filter_map(|e| if let Ev::Redelegate { delegator, src, dst, amount } = e { if delegator == HUB { Some((src, dst, *amount)) } else { None } } else { None })
                    .collect();
                if d > 0 && blocked {
                    out.label("blocked_redelegation");
                    if !red.is_empty() {
                        out.fail(v("redelegated-while-blocked", format!("{}: {:?}", step.desc(), red)));
                    }
                    return;
                }
                if d == 0 {
                    if !red.is_empty() {
                        out.fail(v("redelegated-without-stake", format!("{}: {:?}", step.desc(), red)));
                    }
                    return;
                }
                // the chain allowed redelegation: everything must move
                if cx.pre.pending_rewards(HUB) > 0 {
                    out.label("pending_rewards_at_removal");
                }
                if o0.history.iter().any(|h| !h.released) || !o0.batch.requested_bsei_with_fee.is_zero() || !o0.batch.requested_stsei.is_zero() {
                    out.label("in_flight_batch_at_removal");
                }
                let left = *o1.delegations.get(val).unwrap_or(&0);
                let moved: u128 = red.iter().map(|r| r.2).sum();
                if left != 0 || moved != d || red.iter().any(|r| r.0 != val) {
                    out.fail(v(
                        "stake-left-on-removed-validator",
                        format!("{}: hub had {} on {}, redelegated {} ({:?}), {} left", step.desc(), d, val, moved, red, left),
                    ));
                    return;
                }
                for (_, dst, _) in &red {
                    if !o1.registry.contains(dst) {
                        out.fail(v("redelegated-to-unregistered", format!("{}: destination {} not in {:?}", step.desc(), dst, o1.registry)));
                        return;
                    }
                }
                let rebonded = sum_delegate(evs, HUB);
                if o1.delegated != o0.delegated + rebonded || o1.books() != o0.books() + rebonded {
                    out.fail(v(
                        "totals-after-removal",
                        format!("{}: delegated {} -> {}, booked {} -> {}, rewards re-bonded {}", step.desc(), o0.delegated, o1.delegated, o0.books(), o1.books(), rebonded),
                    ));
                    return;
                }
                let dsts: std::collections::BTreeSet<&String> = red.iter().map(|r| r.1).collect();
                if dsts.len() >= 2 {
                    self.nontrivial = true;
                    out.label("stake_moved_onto_2plus_validators");
                } else {
                    out.label("stake_moved_onto_1_validator");
                }
            }
            ROp::Bond { .. } if step.ok() => {
                for e in step.evs() {
                    if let Ev::Delegate { delegator, validator, .. } = e {
                        if delegator == HUB && !o1.registry.contains(validator) {
                            out.fail(v("bond-delegated-to-unregistered", format!("{}: {} not in {:?}", step.desc(), validator, o1.registry)));
                            return;
                        }
                    }
                }
            }
            ROp::Redelegations { validator: val, .. } if step.ok() => {
                // anyone may finish a blocked move later: stake must go to registered validators only
                for e in step.evs() {
                    if let Ev::Redelegate { delegator, src, dst, .. } = e {
                        if delegator == HUB && (src != val || !o1.registry.contains(dst) || o0.registry.contains(val)) {
                            out.fail(v("redelegations-target", format!("{}: {} -> {} with registry {:?}", step.desc(), src, dst, o1.registry)));
                            return;
                        }
                    }
                }
                if step.evs().iter().any(|e| matches!(e, Ev::Redelegate { .. })) {
                    out.label("late_redelegation_completed");
                    if *o1.delegations.get(val).unwrap_or(&0) != 0 {
                        out.fail(v("stake-left-on-removed-validator", format!("{}: {} left", step.desc(), o1.delegations.get(val).unwrap())));
                    }
                }
            }
            _ => {}
        }
    }
    fn finish(&mut self, _cfg: &Cfg, _w: &World, _o: &Obs, out: &mut CaseResult) {
        out.nontrivial = self.nontrivial;
    }
}
