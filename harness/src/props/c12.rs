//! C12 — stake distribution conserves amounts and never worsens validator imbalance.
use crate::runner::*;
use basset_sei_validators_registry::common::{calculate_delegations, calculate_undelegations};
use basset_sei_validators_registry::registry::ValidatorResponse;
use cosmwasm_std::Uint128;
use proptest::prelude::*;
use serde::{Deserialize, Serialize};
use std::sync::Mutex;
use std::time::{Duration, Instant};

const ID: &str = "C12";

#[derive(Clone, Debug, Serialize, Deserialize)]
pub struct Case {
    pub held: Vec<Uint128>,
    pub amount: Uint128,
    /// 0 = as generated, 1 = ascending (the registry's order for delegation), 2 = descending (the hub's order for undelegation)
    pub order: u8,
    /// system-level case: a generated history whose bonds are checked against the same delegation-plan oracle,
    /// taken over the *whole registered set* (the plan the hub executes, not the pure function on the list it is handed)
    #[serde(default, skip_serializing_if = "Option::is_none")]
    pub system: Option<crate::ops::History>,
}

const CAP: u128 = 1u128 << 100;

fn held_elem() -> BoxedStrategy<u128> {
    prop_oneof![
        2 => Just(0u128),
        2 => 0u128..5,
        3 => 0u128..1000,
        2 => 0u128..1_000_000_000,
        1 => (0u128..1000).prop_map(|m| m * 1_000_000_000_000_000),
        1 => 0u128..CAP,
    ]
    .boxed()
}

fn held_vec() -> BoxedStrategy<Vec<u128>> {
    let len = prop_oneof![10 => 1usize..=12, 1 => 13usize..=60, 1 => Just(0usize)];
    len.prop_flat_map(|n| {
        prop_oneof![
            // independent classes
            4 => proptest::collection::vec(held_elem(), n..=n),
            // ties / near-even: base +- 1
            2 => (0u128..1_000_000_000, proptest::collection::vec(0u128..3, n..=n)).prop_map(|(b, d)| d.into_iter().map(|x| b + x).collect()),
            // all equal
            1 => (0u128..CAP).prop_map(move |b| vec![b; n]),
            // one big, rest tiny
            1 => (0u128..CAP, proptest::collection::vec(0u128..3, n..=n)).prop_map(|(b, mut d)| {
                if !d.is_empty() {
                    d[0] = b;
                }
                d
            }),
        ]
    })
    .boxed()
}

pub fn strategy() -> BoxedStrategy<Case> {
    (held_vec(), 0u8..3, 0u8..10, any::<u64>(), 0u128..CAP)
        .prop_map(|(held, order, aclass, r, big)| {
            let total: u128 = held.iter().sum();
            let n = held.len().max(1) as u128;
            let amount = match aclass {
                0 => 0,
                1 => 1,
                2 => r as u128 % (n + 1),
                3 => total,
                4 => total + 1,
                5 => total / 2 + (r as u128 % 3),
                6 => (r as u128) % (total + 2),
                // leave fewer coins than there are validators / exactly one per validator
                7 => total.saturating_sub(r as u128 % (n + 1)),
                8 => total.saturating_sub(n + r as u128 % 3),
                _ => big,
            };
            Case { held: held.into_iter().map(Uint128::new).collect(), amount: Uint128::new(amount), order, system: None }
        })
        .boxed()
}

fn v(sig: &str, detail: String) -> Violation {
    Violation::new(ID, format!("{}/{}", ID, sig), detail)
}

// ---- watchdog: termination is part of the statement. A call that has not returned after 15 s of wall clock is
// re-run on a fresh thread; only if that confirmation run does not return within 30 s either is it reported
// (a call takes microseconds, so a single slow observation under machine load is not a verdict).
static WATCH: Mutex<Vec<(std::thread::ThreadId, Instant, String)>> = Mutex::new(Vec::new());
static MONITOR: std::sync::Once = std::sync::Once::new();

fn run_pair(c: &Case) {
    let mut held: Vec<u128> = c.held.iter().map(|x| x.u128()).collect();
    match c.order {
        1 => held.sort(),
        2 => {
            held.sort();
            held.reverse();
        }
        _ => {}
    }
    let vals: Vec<ValidatorResponse> =
        held.iter().enumerate().map(|(i, h)| ValidatorResponse { total_delegated: Uint128::new(*h), address: format!("val{}", i) }).collect();
    let _ = std::panic::catch_unwind(|| calculate_delegations(c.amount, &vals));
    let _ = std::panic::catch_unwind(|| calculate_undelegations(c.amount, vals.clone()));
}

fn watch_start(case_json: String) {
    MONITOR.call_once(|| {
        std::thread::spawn(|| loop {
            std::thread::sleep(Duration::from_millis(500));
            let stuck = {
                let w = WATCH.lock().unwrap();
                w.iter().find(|(_, t, _)| t.elapsed() > Duration::from_secs(15)).map(|(id, _, c)| (*id, c.clone()))
            };
            if let Some((tid, c)) = stuck {
                // confirmation run
                let confirmed_hang = match serde_json::from_str::<Case>(&c) {
                    Ok(case) => {
                        let (tx, rx) = std::sync::mpsc::channel();
                        std::thread::spawn(move || {
                            run_pair(&case);
                            let _ = tx.send(());
                        });
                        rx.recv_timeout(Duration::from_secs(30)).is_err()
                    }
                    Err(_) => true,
                };
                if !confirmed_hang {
                    eprintln!("note: a C12 call was observed for more than 15 s but its re-run returned at once (machine load); not a verdict");
                    let mut w = WATCH.lock().unwrap();
                    for e in w.iter_mut() {
                        if e.0 == tid {
                            e.1 = Instant::now();
                        }
                    }
                    continue;
                }
                let dir = verif_root().join("replays");
                let _ = std::fs::create_dir_all(&dir);
                let body = format!(
                    "{{\"property\":\"C12\",\"lenient\":false,\"expect\":\"violation:C12/does-not-terminate\",\"detail\":\"no result within 15 s, and none within 30 s when re-run\",\"seed\":0,\"case\":{}}}",
                    c
                );
                let path = dir.join(format!("C12-{:016x}.json", fnv64(body.as_bytes())));
                let _ = std::fs::write(&path, body);
                crate::outln!("violation C12/does-not-terminate: a distribution call did not return within 15 s (and not within 30 s when re-run)");
                crate::outln!("VIOLATION property=C12 replay={}", path.display());
                std::process::exit(1);
            }
        });
    });
    let id = std::thread::current().id();
    let mut w = WATCH.lock().unwrap();
    w.retain(|(t, _, _)| *t != id);
    w.push((id, Instant::now(), case_json));
}
fn watch_stop() {
    let id = std::thread::current().id();
    WATCH.lock().unwrap().retain(|(t, _, _)| *t != id);
}

/// System-level checker: the Delegate messages of every successful bond / reward re-bond, against the plan oracle
/// over the whole registered set.
struct SysPlan {
    seen: bool,
}

impl crate::hist::Checker for SysPlan {
    fn step(&mut self, cx: &crate::hist::StepCx, out: &mut CaseResult) {
        use crate::chain::Ev;
        use crate::deploy::{HUB, USEI};
        use crate::ops::ROp;
        let (o0, o1, step) = (cx.o0, cx.o1, cx.step);
        // the list the hub plans over is the registry's query answer: it must be the whole registered set with the
        // hub's actual delegations
        {
            let mut listed: Vec<String> = o1.registry_query.iter().map(|x| x.0.clone()).collect();
            listed.sort();
            let faithful = listed == o1.registry
                && o1.registry_query.iter().all(|(val, d)| *d == *o1.delegations.get(val).unwrap_or(&0));
            if !faithful {
                out.fail(v(
                    "system/delegation-query-misreports",
                    format!("after {}: GetValidatorsForDelegation answers {:?} but the registry stores {:?} and the hub's delegations are {:?}", step.desc(), o1.registry_query, o1.registry, o1.delegations),
                ));
                return;
            }
        }
        // the same plan function distributes the stake of a removed validator (RemoveValidator, Redelegations)
        if step.ok() {
            if let ROp::RemoveVal { validator: src } | ROp::Redelegations { validator: src, .. } = &step.rop {
                let mut plan: std::collections::BTreeMap<String, u128> = Default::default();
                for e in step.evs() {
                    if let Ev::Redelegate { delegator, src: s, dst, amount } = e {
                        if delegator == HUB && s == src {
                            *plan.entry(dst.clone()).or_default() += *amount;
                        }
                    }
                }
                let a: u128 = plan.values().sum();
                let n = o1.registry.len() as u128;
                if a > 0 && n > 0 && !o1.registry.contains(src) {
                    let held = |val: &String| *o0.delegations.get(val).unwrap_or(&0);
                    let t: u128 = o1.registry.iter().map(held).sum();
                    let even = (t + a) / n;
                    let ceil = even + if (t + a) % n != 0 { 1 } else { 0 };
                    for (val, p) in &plan {
                        let h = held(val);
                        if *p > 0 && (h > even || h + p > ceil) {
                            out.fail(v(
                                "system/redelegation-plan",
                                format!("{}: {} of {}'s stake goes to {} which held {}: even share of the remaining set {:?} is ({} + {}) / {} = {} (rounded up {})", step.desc(), p, src, val, h, o1.registry, t, a, n, even, ceil),
                            ));
                            return;
                        }
                    }
                    self.seen = true;
                }
            }
        }
        if !step.ok() || !matches!(step.rop, ROp::Bond { .. } | ROp::UpdateIndex { .. }) || o0.registry != o1.registry {
            return;
        }
        let evs = step.evs();
        let mut i = 0;
        while i < evs.len() {
            if let Ev::Exec { contract, msg, funds, .. } = &evs[i] {
                let is_bond = contract == HUB
                    && (msg.starts_with("{\"bond\"") || msg.starts_with("{\"bond_for_st_sei\"") || msg.starts_with("{\"bond_rewards\""));
                if is_bond {
                    let a: u128 = funds.iter().filter(|c| c.denom == USEI).map(|c| c.amount.u128()).sum();
                    let mut plan: std::collections::BTreeMap<String, u128> = Default::default();
                    let mut j = i + 1;
                    while j < evs.len() {
                        match &evs[j] {
                            Ev::Delegate { delegator, validator, amount } if delegator == HUB => *plan.entry(validator.clone()).or_default() += *amount,
                            Ev::WithdrawReward { .. } => {}
                            _ => break,
                        }
                        j += 1;
                    }
                    let n = o0.registry.len() as u128;
                    if n == 0 || a == 0 {
                        i += 1;
                        continue;
                    }
                    let held = |val: &String| *o0.delegations.get(val).unwrap_or(&0);
                    let t: u128 = o0.registry.iter().map(held).sum();
                    let even = (t + a) / n;
                    let ceil = even + if (t + a) % n != 0 { 1 } else { 0 };
                    let total: u128 = plan.values().sum();
                    if total != a {
                        out.fail(v("system/not-conserved", format!("{}: payment {} but the executed plan {:?} sums to {}", step.desc(), a, plan, total)));
                        return;
                    }
                    for (val, p) in &plan {
                        if *p == 0 {
                            continue;
                        }
                        let h = held(val);
                        if h > even {
                            out.fail(v(
                                "system/gives-to-validator-above-even-share",
                                format!("{}: {} already holds {} > even share {} = ({} + {}) / {} over the registered set {:?}, yet receives {}", step.desc(), val, h, even, t, a, n, o0.registry, p),
                            ));
                            return;
                        }
                        if h + p > ceil {
                            out.fail(v(
                                "system/lifts-above-even-share",
                                format!("{}: {} goes from {} to {} > ceil(({} + {}) / {}) = {} over the registered set {:?} (delegations {:?})", step.desc(), val, h, h + p, t, a, n, ceil, o0.registry, o0.delegations),
                            ));
                            return;
                        }
                    }
                    let ds: Vec<u128> = o0.registry.iter().map(held).collect();
                    if ds.len() >= 2 && ds.iter().max().unwrap() - ds.iter().min().unwrap() > 1 {
                        self.seen = true;
                    }
                }
            }
            i += 1;
        }
    }
    fn finish(&mut self, _cfg: &crate::deploy::Cfg, _w: &crate::chain::World, _o: &crate::obs::Obs, out: &mut CaseResult) {
        out.nontrivial = self.seen;
    }
}

pub struct C12;

impl Prop for C12 {
    type Case = Case;
    fn id(&self) -> &'static str {
        ID
    }
    fn rule(&self) -> String {
        "generated direct inputs of calculate_delegations / calculate_undelegations: list length 0..12 (sometimes up to 60), delegations from classes (zeros, ties, near-even +-1, tiny, up to 2^100), as generated / ascending / descending order, amounts 0, 1, remainders mod n, the total, total+1, about half, random, huge (sum + amount < 2^127); plus (1 in 600 cases) generated full-system histories whose executed Delegate messages are held to the same plan oracle over the whole registered set; non-trivial = n >= 2, non-uniform delegations, amount > 0 (system case: a bond onto an uneven layout); distinct by hash of the input".into()
    }
    fn assumptions(&self) -> Vec<String> {
        vec!["sum of delegations + amount < 2^127 (u128-safe range of the functions' own arithmetic)".into(), "termination is judged by a 15 s watchdog per call, confirmed by a 30 s re-run".into()]
    }
    fn strategy(&self, _tier: Tier) -> BoxedStrategy<Case> {
        use crate::deploy::cfg_strategy;
        use crate::ops::{history_strategy, registry_scenario_strategy, uneven_bond_scenario_strategy, Profile};
        let mut p = Profile::base();
        p.registry = 8;
        p.slash = 8;
        p.bond = 30;
        p.update_index = 4;
        p.accrue = 4;
        p.len = 6..30;
        let sys = prop_oneof![
            2 => uneven_bond_scenario_strategy(cfg_strategy()),
            1 => registry_scenario_strategy(&p, cfg_strategy()),
            1 => history_strategy(&p, cfg_strategy()),
        ]
        .prop_map(|h| Case { held: vec![], amount: Uint128::zero(), order: 0, system: Some(h) });
        prop_oneof![600 => strategy(), 1 => sys].boxed()
    }
    fn cases(&self, tier: Tier) -> u32 {
        match tier {
            Tier::Quick => 2_000_000,
            Tier::Thorough => 20_000_000,
        }
    }
    fn check(&self, c: &Case, _lenient: bool) -> CaseResult {
        if let Some(h) = &c.system {
            let mut r = crate::hist::run_history(h, true, |_, _, _| SysPlan { seen: false });
            r.label("system_level_plan");
            return r;
        }
        let mut out = CaseResult::default();
        out.work = 2;
        let mut held: Vec<u128> = c.held.iter().map(|x| x.u128()).collect();
        match c.order {
            1 => held.sort(),
            2 => {
                held.sort();
                held.reverse();
            }
            _ => {}
        }
        let n = held.len();
        let a = c.amount.u128();
        let t: u128 = held.iter().sum();
        let vals: Vec<ValidatorResponse> =
            held.iter().enumerate().map(|(i, h)| ValidatorResponse { total_delegated: Uint128::new(*h), address: format!("val{}", i) }).collect();
        watch_start(serde_json::to_string(c).unwrap_or_default());
        let del = std::panic::catch_unwind(|| calculate_delegations(Uint128::new(a), &vals));
        let und = std::panic::catch_unwind(|| calculate_undelegations(Uint128::new(a), vals.clone()));
        watch_stop();
        let uniform = held.iter().all(|h| *h == held[0]);
        if n >= 2 && !uniform && a > 0 {
            out.nontrivial = true;
        }
        // ------------------------------------------------ delegation plan
        match del {
            Err(_) => {
                out.fail(v("delegations/panic", format!("calculate_delegations({}, {:?}) panicked", a, held)));
                return out;
            }
            Ok(Err(e)) => {
                if n != 0 {
                    out.fail(v("delegations/unexpected-error", format!("calculate_delegations({}, {:?}) failed: {}", a, held, e)));
                    return out;
                }
                out.label("empty_list");
            }
            Ok(Ok((rem, plan))) => {
                if n == 0 {
                    out.fail(v("delegations/empty-list-accepted", "calculate_delegations accepted an empty validator list".into()));
                    return out;
                }
                let plan: Vec<u128> = plan.iter().map(|x| x.u128()).collect();
                let sum: u128 = plan.iter().sum();
                if !rem.is_zero() || sum != a || plan.len() != n {
                    out.fail(v("delegations/not-conserved", format!("calculate_delegations({}, {:?}) = ({}, {:?}): plan sums to {}", a, held, rem, plan, sum)));
                    return out;
                }
                let q = (t + a) / n as u128;
                let ceil = q + if (t + a) % n as u128 > 0 { 1 } else { 0 };
                for i in 0..n {
                    if held[i] > q && plan[i] != 0 {
                        out.fail(v("delegations/above-share-received", format!("calculate_delegations({}, {:?}) = {:?}: validator {} holds {} > even share {} but receives {}", a, held, plan, i, held[i], q, plan[i])));
                        return out;
                    }
                    if plan[i] > 0 && held[i] + plan[i] > ceil {
                        out.fail(v("delegations/lifted-above-share", format!("calculate_delegations({}, {:?}) = {:?}: validator {} ends at {} > ceil share {}", a, held, plan, i, held[i] + plan[i], ceil)));
                        return out;
                    }
                }
            }
        }
        // ------------------------------------------------ undelegation plan
        match und {
            Err(_) => {
                out.fail(v("undelegations/panic", format!("calculate_undelegations({}, {:?}) panicked", a, held)));
                return out;
            }
            Ok(Err(e)) => {
                if n != 0 && a <= t {
                    out.fail(v("undelegations/unexpected-error", format!("calculate_undelegations({}, {:?}) failed: {}", a, held, e)));
                    return out;
                }
                out.label(if n == 0 { "empty_list" } else { "amount_exceeds_total" });
            }
            Ok(Ok(plan)) => {
                if n == 0 || a > t {
                    out.fail(v("undelegations/invalid-request-accepted", format!("calculate_undelegations({}, {:?}) succeeded with {:?}", a, held, plan)));
                    return out;
                }
                let plan: Vec<u128> = plan.iter().map(|x| x.u128()).collect();
                let sum: u128 = plan.iter().sum();
                if sum != a || plan.len() != n {
                    out.fail(v("undelegations/not-conserved", format!("calculate_undelegations({}, {:?}) = {:?}: plan sums to {}", a, held, plan, sum)));
                    return out;
                }
                let q = (t - a) / n as u128;
                for i in 0..n {
                    if plan[i] > held[i] {
                        out.fail(v("undelegations/more-than-held", format!("calculate_undelegations({}, {:?}) = {:?}: validator {} holds {} but {} is taken", a, held, plan, i, held[i], plan[i])));
                        return out;
                    }
                    if held[i] >= q && held[i] - plan[i] < q {
                        out.fail(v("undelegations/pushed-below-share", format!("calculate_undelegations({}, {:?}) = {:?}: validator {} ends at {} < even share {}", a, held, plan, i, held[i] - plan[i], q)));
                        return out;
                    }
                }
            }
        }
        if n > 12 {
            out.label("long_list");
        }
        if c.order == 0 {
            out.label("unsorted");
        }
        out
    }
}
