//! C01 — matured unbond claims are always fully funded, paid exactly once, order-independently.
use super::common::*;
use super::*;
use crate::chain::Ev;
use crate::obs::{hub_history, hub_requests, observe};
use crate::util::*;
use basset::hub::ExecuteMsg as HubExec;
use std::collections::{BTreeMap, BTreeSet};

pub struct C01 {
    /// arrival ledger: coins credited to the hub per batch tag (after slashing), and what was undelegated
    matured: BTreeMap<u64, u128>,
    matured_original: BTreeMap<u64, u128>,
    /// unsolicited transfers to the hub since the previous release group
    donated: u128,
    /// batch tags whose unbonding entries lost stake to slashing
    slashed_tags: BTreeSet<u64>,
    nontrivial: bool,
    groups: u64,
    probes: u64,
}

const ID: &str = "C01";

pub fn prop() -> HistProp {
    HistProp {
        id: ID,
        rule: "generated unbond-heavy full-system histories (bonds/unbonds of both tokens by 2-6 users, converts, withdrawals, boundary-relative clock moves, slashing of bonded and unbonding stake, reward rounds, unsolicited transfers); an arrival ledger kept by the harness from chain events is the reference; non-trivial = the history contains at least one positive payout; classes: >= 2 release groups, slashing during unbonding, unsolicited transfer in a window, mixed-token batch, >= 2 claimants in a group, permutation pairs executed; distinct by hash of the case",
        profile: |t| {
            let mut p = Profile::base();
            p.unbond = 18;
            p.withdraw = 14;
            p.advance = 18;
            p.bond = 10;
            p.slash = 4;
            p.donate = 3;
            p.hook_from = 2;
            p.registry = 1;
            p.prefix_bonds = 2..5;
            long(p, t)
        },
        cfgs: cfg_strategy,
        quick: 4000,
        thorough: 40000,
        mk: |_, _, _| {
            Box::new(C01 {
                matured: BTreeMap::new(),
                matured_original: BTreeMap::new(),
                donated: 0,
                slashed_tags: BTreeSet::new(),
                nontrivial: false,
                groups: 0,
                probes: 0,
            })
        },
        extra: Some((4, |_| release_scenario_strategy(cfg_strategy()))),
        many_batches: 2,
        zero_arrival: 1,
    }
}

fn v(sig: &str, detail: String) -> Violation {
    Violation::new(ID, format!("{}/{}", ID, sig), detail)
}

fn paid_to(evs: &[Ev], user: &str) -> (u128, usize) {
    let mut n = 0;
    let mut t = 0u128;
    for e in evs {
        if let Ev::Bank { from, to, coins } = e {
            if from == HUB && to == user {
                n += 1;
                t += coins.iter().filter(|c| c.denom == USEI).map(|c| c.amount.u128()).sum::<u128>();
            }
        }
    }
    (t, n)
}

impl Checker for C01 {
    fn step(&mut self, cx: &StepCx, out: &mut CaseResult) {
        let (o0, o1, step) = (cx.o0, cx.o1, cx.step);
        // ---------------- ledger maintenance from environment events
        match &step.rop {
            ROp::Advance { .. } => {
                for e in step.evs() {
                    if let Ev::Matured { delegator, amount, original, tag, .. } = e {
                        if delegator == HUB {
                            *self.matured.entry(*tag).or_default() += *amount;
                            *self.matured_original.entry(*tag).or_default() += *original;
                            if amount != original {
                                self.slashed_tags.insert(*tag);
                            }
                        }
                    }
                }
            }
            ROp::Donate { to, denom, amount } if to == HUB && denom == USEI => {
                self.donated += *amount;
            }
            _ => {}
        }
        // ---------------- (a) coverage after every step
        let claims = released_claims_total(o1);
        let hub_bal = o1.bank_of(HUB, USEI);
        if claims > hub_bal {
            out.fail(v(
                "coverage",
                format!("after {}: released claims are worth {} but the hub holds {}", step.desc(), claims, hub_bal),
            ));
            return;
        }
        if let ROp::Withdraw { user: u } = &step.rop {
            if step.ok() {
                // ---------------- (b) exact payout, removal, nobody else touched
                let (paid, nsends) = paid_to(step.evs(), u);
                let mut expect = 0u128;
                let mut removed: Vec<u64> = vec![];
                for (b, x, y) in o0.reqs(u) {
                    if let Some(h) = o1.hist(*b) {
                        if h.released {
                            expect += claim_value(h, *x, *y);
                            removed.push(*b);
                        }
                    }
                }
                if nsends != 1 || paid != expect || paid == 0 {
                    out.fail(v(
                        "payout-amount",
                        format!("{}: paid {} in {} bank sends, recorded share at the final withdraw rates is {}", step.desc(), paid, nsends, expect),
                    ));
                    return;
                }
                let left: Vec<u64> = o1.reqs(u).iter().map(|r| r.0).collect();
                if removed.iter().any(|b| left.contains(b)) {
                    out.fail(v("paid-claim-not-removed", format!("{}: batches {:?} paid but still listed {:?}", step.desc(), removed, left)));
                    return;
                }
                let mut kept0: Vec<(u64, u128, u128)> = o0.reqs(u).iter().filter(|r| !removed.contains(&r.0)).cloned().collect();
                let mut kept1: Vec<(u64, u128, u128)> = o1.reqs(u).to_vec();
                kept0.sort();
                kept1.sort();
                if kept0 != kept1 {
                    out.fail(v("unreleased-claim-changed", format!("{}: claimant's other entries {:?} -> {:?}", step.desc(), kept0, kept1)));
                    return;
                }
                for (other, r0) in &o0.requests {
                    if other != u && o1.reqs(other) != r0.as_slice() {
                        out.fail(v("other-users-claims-changed", format!("{}: {}'s entries {:?} -> {:?}", step.desc(), other, r0, o1.reqs(other))));
                        return;
                    }
                }
                self.nontrivial = true;
                // ---------------- (c) never twice: repeating the withdrawal at the same time fails and pays nothing
                let mut w2 = cx.post.clone();
                let r2 = w2.tx(u, HUB, &HubExec::WithdrawUnbonded {}, &[]);
                if r2.is_ok() || !w2.same_state(cx.post) {
                    out.fail(v("paid-twice", format!("{}: an immediate second withdrawal {}", step.desc(), if r2.is_ok() { "succeeds" } else { "changes state" })));
                    return;
                }
                // ---------------- (d)/(e) conservation and dust per release group
                let group = release_group(o0, o1);
                if !group.is_empty() {
                    self.groups += 1;
                    out.count("release_groups", 1);
                    if self.groups >= 2 {
                        out.label("two_or_more_release_groups");
                    }
                    let mut payable = 0u128;
                    let mut arrived = 0u128;
                    let mut undelegated = 0u128;
                    let mut nclaims = 0u128;
                    let mut ntok = 0u128;
                    let mut claimants: BTreeSet<String> = BTreeSet::new();
                    let mut clean = self.donated == 0;
                    for h in &group {
                        arrived += self.matured.get(&h.batch_id).copied().unwrap_or(0);
                        undelegated += self.matured_original.get(&h.batch_id).copied().unwrap_or(0);
                        if self.slashed_tags.contains(&h.batch_id) {
                            clean = false;
                            out.label("slashing_during_unbonding");
                        }
                        if !h.bsei_amount.is_zero() {
                            ntok += 1;
                        }
                        if !h.stsei_amount.is_zero() {
                            ntok += 1;
                        }
                        if !h.bsei_amount.is_zero() && !h.stsei_amount.is_zero() {
                            out.label("mixed_token_batch");
                        }
                        for (who, x, y) in claims_on(o0, h.batch_id) {
                            payable += claim_value(h, x, y);
                            claimants.insert(who);
                            if x > 0 {
                                nclaims += 1;
                            }
                            if y > 0 {
                                nclaims += 1;
                            }
                        }
                        let (cb, cs) = batch_coins(h);
                        if cb + cs != self.matured_original.get(&h.batch_id).copied().unwrap_or(0) {
                            out.fail(v(
                                "ledger-mismatch",
                                format!("{}: batch {} records {} + {} coins but the chain undelegated {} under that batch", step.desc(), h.batch_id, cb, cs, self.matured_original.get(&h.batch_id).copied().unwrap_or(0)),
                            ));
                            return;
                        }
                    }
                    if claimants.len() >= 2 {
                        out.label("two_or_more_claimants_in_group");
                    }
                    if self.donated > 0 {
                        out.label("unsolicited_transfer_in_window");
                    }
                    if payable > arrived + self.donated {
                        out.fail(v(
                            "group-overpaid",
                            format!("{}: release group {:?} pays {} in total but only {} arrived from undelegation (+ {} unsolicited)", step.desc(), group.iter().map(|h| h.batch_id).collect::<Vec<_>>(), payable, arrived, self.donated),
                        ));
                        return;
                    }
                    if clean {
                        out.count("clean_groups_dust_checked", 1);
                        let dust = arrived - payable;
                        if dust > 4 * ntok + nclaims {
                            out.fail(v(
                                "group-dust",
                                format!("{}: release group {:?} undelegated {} = arrived {}, pays {}: {} units stranded (> 4*{} + {})", step.desc(), group.iter().map(|h| h.batch_id).collect::<Vec<_>>(), undelegated, arrived, payable, dust, ntok, nclaims),
                            ));
                            return;
                        }
                    }
                    self.donated = 0;
                    for h in &group {
                        self.matured.remove(&h.batch_id);
                    }
                }
            } else {
                // a failed withdrawal by someone whose *released* claims are worth >= 1 unit is a liveness failure
                let val = released_value_of(o0, u);
                if val >= 1 && !o0.params.paused.unwrap_or(false) {
                    out.fail(v(
                        "withdraw-failed-with-released-claims",
                        format!("{}: released claims worth {} but the withdrawal failed", step.desc(), val),
                    ));
                    return;
                }
            }
        }
        // ---------------- (f)/(g) probes on cloned worlds when maturity may have changed
        let probe = matches!(step.rop, ROp::Advance { .. } | ROp::Withdraw { .. } | ROp::Slash { .. } | ROp::Donate { .. })
            && !o1.requests.is_empty()
            && !o1.params.paused.unwrap_or(false)
            && self.probes < 12;
        if probe {
            let unb = o1.params.unbonding_period;
            let matured_unreleased: Vec<u64> =
                o1.history.iter().filter(|h| !h.released && h.time + unb <= o1.time).map(|h| h.batch_id).collect();
            let anything_released = o1.history.iter().any(|h| h.released);
            if matured_unreleased.is_empty() && !anything_released {
                return;
            }
            self.probes += 1;
            out.count("liveness_probes", 1);
            let claimants: Vec<String> = o1.requests.keys().cloned().collect();
            // dry runs
            let mut can: Vec<(String, u128)> = vec![];
            for u in &claimants {
                let mut w = cx.post.clone();
                match w.tx(u, HUB, &HubExec::WithdrawUnbonded {}, &[]) {
                    Ok(evs) => can.push((u.clone(), paid_to(&evs, u).0)),
                    Err(e) => {
                        // must succeed if released claims are worth >= 1, or if it holds a clearly positive
                        // claim in a matured, unslashed batch
                        let released_val = released_value_of(o1, u);
                        let mut fresh_val = 0u128;
                        // loss on unbonding stake is shared by the whole release group: only a group without
                        // any slashed entry gives a firm lower bound
                        let group_clean = matured_unreleased.iter().all(|b| !self.slashed_tags.contains(b));
                        for (b, x, y) in o1.reqs(u) {
                            if matured_unreleased.contains(b) && group_clean {
                                if let Some(h) = o1.hist(*b) {
                                    fresh_val += mul_floor(*x, h.bsei_applied_exchange_rate) + mul_floor(*y, h.stsei_applied_exchange_rate);
                                }
                            }
                        }
                        if released_val >= 1 || fresh_val >= 8 {
                            out.fail(v(
                                "matured-claim-cannot-be-withdrawn",
                                format!("after {}: {} holds matured claims (released value {}, fresh unslashed value {}) but WithdrawUnbonded fails: {}", step.desc(), u, released_val, fresh_val, e),
                            ));
                            return;
                        }
                    }
                }
            }
            // (g) order independence among those who can withdraw now
            if can.len() >= 2 {
                out.label("permutation_pair_executed");
                out.count("permutation_pairs", 1);
                let orders: [Vec<usize>; 2] = [(0..can.len()).collect(), (0..can.len()).rev().collect()];
                let mut payouts: Vec<BTreeMap<String, u128>> = vec![];
                for ord in orders.iter() {
                    let mut w = cx.post.clone();
                    let mut m = BTreeMap::new();
                    for i in ord {
                        let u = &can[*i].0;
                        match w.tx(u, HUB, &HubExec::WithdrawUnbonded {}, &[]) {
                            Ok(evs) => {
                                m.insert(u.clone(), paid_to(&evs, u).0);
                            }
                            Err(e) => {
                                out.fail(v(
                                    "order-dependent-failure",
                                    format!("after {}: {} can withdraw alone but fails after others withdrew first: {}", step.desc(), u, e),
                                ));
                                return;
                            }
                        }
                    }
                    // after everybody withdrew: coverage still holds on the clone
                    let cfg = cx.cfg;
                    let oc = observe(&w, cfg);
                    if released_claims_total(&oc) > oc.bank_of(HUB, USEI) {
                        out.fail(v("coverage", format!("after {} and all withdrawals: claims {} > balance {}", step.desc(), released_claims_total(&oc), oc.bank_of(HUB, USEI))));
                        return;
                    }
                    payouts.push(m);
                }
                if payouts[0] != payouts[1] {
                    out.fail(v(
                        "order-dependent-payout",
                        format!("after {}: payouts in order {:?} vs reversed {:?}", step.desc(), payouts[0], payouts[1]),
                    ));
                    return;
                }
                for (u, alone) in &can {
                    if payouts[0].get(u) != Some(alone) {
                        out.fail(v(
                            "order-dependent-payout",
                            format!("after {}: {} gets {} withdrawing first but {:?} in sequence", step.desc(), u, alone, payouts[0].get(u)),
                        ));
                        return;
                    }
                }
            }
            let _ = (hub_history, hub_requests);
        }
    }
    fn finish(&mut self, _cfg: &Cfg, _w: &World, _o: &Obs, out: &mut CaseResult) {
        out.nontrivial = self.nontrivial;
    }
}
