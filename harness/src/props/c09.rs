//! C09 — holders can always exit; exits do not depend on the reward plumbing.
use super::common::*;
use super::*;
use crate::chain::StubMode;
use crate::obs::{bal, hub_params, hub_state, observe};
use crate::util::*;
use basset::hub::ExecuteMsg as HubExec;
use cosmwasm_std::{Coin, Decimal, Uint128};
use cw20::Cw20ExecuteMsg;

pub struct C09 {
    probes: u64,
    nontrivial: bool,
    seen_states: std::collections::BTreeSet<u64>,
    /// an unbonding entry of the hub was slashed at some point of this history (then arrivals may fall short of what
    /// was undelegated and the firm-value bound below does not apply)
    unbonding_slashed: bool,
}

const ID: &str = "C09";
const HELPER: &str = "exithelper";

pub fn prop() -> HistProp {
    HistProp {
        id: ID,
        rule: "generated histories reaching slashed, drained and dust states; at sampled steps every holder x token x amount in {1, half, all} is taken through unbond -> (epoch+1) -> undelegating unbond -> (unbonding period) -> withdraw on cloned worlds; every bond/unbond/convert/withdraw/transfer/claim of the history is re-run on a clone whose swap and oracle stubs fail or return garbage and must give the identical result and state; non-trivial = a probe ran in a state with a rate != 1, a supply below 10 units or a fully drained pool; distinct by hash of the case",
        profile: |t| {
            let mut p = Profile::base();
            p.slash = 6;
            p.unbond = 14;
            p.withdraw = 10;
            p.convert = 6;
            p.claim = 4;
            p.transfer = 4;
            p.accrue = 5;
            p.update_index = 4;
            p.len = 6..40;
            long(p, t)
        },
        cfgs: cfg_strategy,
        quick: 3000,
        thorough: 40000,
        mk: |_, _, _| Box::new(C09 { probes: 0, nontrivial: false, seen_states: Default::default(), unbonding_slashed: false }),
        extra: None,
        many_batches: 3,
        zero_arrival: 1,
    }
}

fn v(sig: &str, detail: String) -> Violation {
    Violation::new(ID, format!("{}/{}", ID, sig), detail)
}

fn tok(st: bool) -> &'static str {
    if st {
        STSEI
    } else {
        BSEI
    }
}

/// Classify a failed unbond: a pool that books no backing but has (or gets) pending requests is priced at the
/// definitional rate 1 and cannot be undelegated once the epoch period has passed (one root cause, known finding).
fn unbond_failure_signature(w_before: &World, st: bool, amount: u128, generic: String) -> String {
    let s = hub_state(w_before);
    let b = crate::obs::hub_batch(w_before);
    let p = hub_params(w_before);
    let epoch_passed = w_before.time.saturating_sub(s.last_unbonded_time) > p.epoch_period;
    let req_b = b.requested_bsei_with_fee.u128() + if st { 0 } else { amount };
    let req_s = b.requested_stsei.u128() + if st { amount } else { 0 };
    if epoch_passed && s.total_bond_bsei_amount.is_zero() && req_b > 0 {
        "unbond-fails/zero-backed-pool/bsei".to_string()
    } else if epoch_passed && s.total_bond_stsei_amount.is_zero() && req_s > 0 {
        "unbond-fails/zero-backed-pool/stsei".to_string()
    } else {
        generic
    }
}

impl C09 {
    /// Full exit of `amount` of `holder`'s tokens on a clone of `w0`.
    fn exit_probe(&self, cx: &StepCx, holder: &str, st: bool, amount: u128, label: &str) -> Option<Violation> {
        let mut w = cx.post.clone();
        let tname = if st { "stsei" } else { "bsei" };
        let params = hub_params(&w);
        let before_batch = crate::obs::hub_batch(&w).id;
        let send = |w: &mut World, who: &str, st: bool, a: u128| {
            w.cur_tag = crate::obs::hub_batch(w).id;
            w.tx(who, tok(st), &Cw20ExecuteMsg::Send { contract: HUB.into(), amount: Uint128::new(a), msg: hook_msg(false) }, &[])
        };
        let w_before = w.clone();
        if let Err(e) = send(&mut w, holder, st, amount) {
            let sig = unbond_failure_signature(&w_before, st, amount, format!("unbond-fails/{}/{}", tname, label));
            return Some(v(
                &sig,
                format!("after {}: {} cannot unbond {} of its {} {}: {}", cx.step.desc(), holder, amount, bal(cx.post, tok(st), holder), tname, e),
            ));
        }
        // which batch holds the request?
        let batch = if crate::obs::hub_batch(&w).id == before_batch { before_batch } else { before_batch };
        let credited = crate::obs::hub_requests(&w, holder).iter().find(|r| r.0 == batch).map(|r| if st { r.2 } else { r.1 }).unwrap_or(0);
        // after the epoch period the next unbond undelegates the batch
        if crate::obs::hub_history(&w).iter().all(|h| h.batch_id != batch) {
            w.advance(params.epoch_period + 1);
            // the next unbond: the holder itself if it still has tokens, otherwise a fresh helper
            let rest = bal(&w, tok(st), holder);
            let (mut st2, mut a2) = (st, 1u128);
            let mut w_pre2 = w.clone();
            let r = if rest > 0 {
                send(&mut w, holder, st, 1.min(rest))
            } else {
                // helper bonds enough to own at least one stSei, then unbonds one
                let s = hub_state(&w);
                let need = (s.stsei_exchange_rate * Uint128::new(2)).u128() + 2;
                w.mint(HELPER, USEI, need);
                if let Err(e) = w.tx(HELPER, HUB, &HubExec::BondForStSei {}, &[Coin::new(need, USEI)]) {
                    return Some(v("helper-bond-fails", format!("after {}: a bond of {} for stSei fails in the exit probe: {}", cx.step.desc(), need, e)));
                }
                let hb = bal(&w, STSEI, HELPER);
                st2 = true;
                a2 = hb.max(1);
                w_pre2 = w.clone();
                send(&mut w, HELPER, true, hb.max(1))
            };
            if let Err(e) = r {
                let sig = unbond_failure_signature(&w_pre2, st2, a2, format!("undelegating-unbond-fails/{}", tname));
                let s = hub_state(&w);
                let b = crate::obs::hub_batch(&w);
                return Some(v(
                    &sig,
                    format!("after {}: {} unbonded {} {}; the first unbond after the epoch period fails: {} (pools {} / {}, requested {} / {})", cx.step.desc(), holder, amount, tname, e, s.total_bond_bsei_amount, s.total_bond_stsei_amount, b.requested_bsei_with_fee, b.requested_stsei),
                ));
            }
            if crate::obs::hub_history(&w).iter().all(|h| h.batch_id != batch) {
                return Some(v(
                    "request-not-undelegated",
                    format!("after {}: batch {} with {}'s request was not undelegated by the first unbond after the epoch period", cx.step.desc(), batch, holder),
                ));
            }
        }
        let h = crate::obs::hub_history(&w).into_iter().find(|h| h.batch_id == batch).unwrap();
        w.advance(params.unbonding_period + 1);
        // no slashing inside the probe: the claim is worth its value at the applied rate, less dust
        let all = crate::obs::hub_requests(&w, holder);
        let mut firm = 0u128;
        let mut unslashed = true;
        for (b, x, y) in &all {
            if let Some(hh) = crate::obs::hub_history(&w).iter().find(|hh| hh.batch_id == *b) {
                if hh.time + params.unbonding_period <= w.time {
                    firm += mul_floor(*x, hh.bsei_applied_exchange_rate) + mul_floor(*y, hh.stsei_applied_exchange_rate);
                }
            }
        }
        // entries of the history that were slashed while unbonding before the probe make the bound soft
        if cx.post.unbondings.iter().any(|u| u.amount != u.original) || !cx.post.unbondings.is_empty() && cx.o1.bank_of(HUB, USEI) < cx.o1.state.prev_hub_balance.u128() {
            unslashed = false;
        }
        let _ = (credited, h);
        match w.tx(holder, HUB, &HubExec::WithdrawUnbonded {}, &[]) {
            Ok(_) => None,
            Err(e) => {
                let o = observe(&w, cx.cfg);
                let released = released_value_of(&o, holder);
                if released >= 1 || (unslashed && firm >= 8 + 2 * all.len() as u128) {
                    Some(v(
                        &format!("withdraw-fails/{}", tname),
                        format!("after {}: {} unbonded {} {}, waited epoch + unbonding period, claims are worth {} (released) / {} (at applied rates) but WithdrawUnbonded fails: {}", cx.step.desc(), holder, amount, tname, released, firm, e),
                    ))
                } else {
                    None
                }
            }
        }
    }
}

impl Checker for C09 {
    fn step(&mut self, cx: &StepCx, out: &mut CaseResult) {
        let (o0, o1, step) = (cx.o0, cx.o1, cx.step);
        // ---------------- differential fault injection on the exit / user paths
        let user_path = matches!(
            step.rop,
            ROp::Bond { .. } | ROp::Hook { .. } | ROp::Withdraw { .. } | ROp::Transfer { .. } | ROp::Claim { .. } | ROp::TransferFrom { .. } | ROp::SendSink { .. } | ROp::CheckSlashing { .. } | ROp::BurnFrom { .. }
        );
        if user_path && cx.pre.swap_mode == StubMode::Ok && cx.pre.oracle_mode == StubMode::Ok {
            for (sm, om) in [(StubMode::Fail, StubMode::Fail), (StubMode::Garbage, StubMode::Garbage)] {
                let mut w = cx.pre.clone();
                w.swap_mode = sm;
                w.oracle_mode = om;
                let mut it = Interp::new(cx.cfg);
                let s2 = it.exec(&mut w, &step.rop);
                w.trace.clear();
                out.count("stub_fault_differentials", 1);
                let same = s2.res.is_ok() == step.res.is_ok()
                    && (s2.res.is_err() || s2.res.as_ref().ok() == step.res.as_ref().ok())
                    && w.same_state(cx.post);
                if !same {
                    out.fail(v(
                        &format!("depends-on-reward-plumbing/{}", step.rop.name()),
                        format!("{}: with swap/oracle stubs {:?} the same operation gives {} and {} state", step.desc(), sm, match &s2.res { Ok(_) => "ok".to_string(), Err(e) => format!("ERR {}", e) }, if w.same_state(cx.post) { "the same" } else { "a different" }),
                    ));
                    return;
                }
            }
        }
        if let ROp::Slash { unbonding: true, .. } = &step.rop {
            if !cx.pre.unbondings.is_empty() {
                self.unbonding_slashed = true;
            }
        }
        // ---------------- withdrawals of the history itself: with released claims worth >= 1 unit they must succeed
        if let ROp::Withdraw { user: u } = &step.rop {
            let val = released_value_of(o0, u);
            // ... and, while no unbonding stake was ever slashed, so must every claim in a batch whose unbonding period
            // has elapsed, at (almost) its value at the rate the batch was undelegated for: whatever happened to the
            // batch's release in between (it may have been released by somebody else's withdrawal, at any second)
            if !o0.params.paused.unwrap_or(false) && !self.unbonding_slashed {
                let (now, unb) = (cx.pre.time, o0.params.unbonding_period);
                let (mut firm, mut n) = (0u128, 0u128);
                for (b, x, y) in o0.reqs(u) {
                    if let Some(h) = o0.hist(*b) {
                        if h.time + unb <= now {
                            firm += mul_floor(*x, h.bsei_applied_exchange_rate) + mul_floor(*y, h.stsei_applied_exchange_rate);
                            n += 1;
                        }
                    }
                }
                let slack = 4 * n + 4;
                if firm >= 8 + slack {
                    out.count("withdrawals_with_matured_unslashed_claims", 1);
                    let paid = if step.ok() { bank_sent(step.evs(), HUB, u, USEI) } else { 0 };
                    if paid + slack < firm {
                        out.fail(v(
                            if step.ok() { "withdraw-pays-less-than-matured-unslashed-claims" } else { "withdraw-fails-with-matured-unslashed-claims" },
                            format!(
                                "{}: no unbonding stake was ever slashed; {} holds {} claims in batches whose unbonding period has elapsed, worth {} at the rates they were undelegated for ({:?}), but was paid {}{}",
                                step.desc(), u, n, firm, o0.reqs(u), paid, if let Err(e) = &step.res { format!(": {}", e) } else { String::new() }
                            ),
                        ));
                        return;
                    }
                }
            }
            if !o0.params.paused.unwrap_or(false) {
                if val >= 1 {
                    out.count("withdrawals_with_released_claims", 1);
                    if !step.ok() {
                        out.fail(v(
                            "withdraw-fails-with-released-claims",
                            format!("{}: {} holds released claims worth {} ({:?}) but WithdrawUnbonded fails", step.desc(), u, val, o0.reqs(u)),
                        ));
                        return;
                    }
                    let paid = bank_sent(step.evs(), HUB, u, USEI);
                    if paid < val {
                        out.fail(v(
                            "withdraw-pays-less-than-released-claims",
                            format!("{}: {} holds released claims worth {} ({:?}) but was paid {}", step.desc(), u, val, o0.reqs(u), paid),
                        ));
                        return;
                    }
                }
            }
        }
        // ---------------- liveness probes at sampled steps
        if o1.params.paused.unwrap_or(false) || o1.delegated == 0 || self.probes >= 4 {
            return;
        }
        let interesting = matches!(step.rop, ROp::Slash { .. } | ROp::Hook { .. } | ROp::Withdraw { .. } | ROp::UpdateIndex { .. } | ROp::Bond { .. });
        if !interesting {
            return;
        }
        // sample: distinct states only (hash of the pool totals, supplies and batch)
        let key = crate::runner::fnv64(format!("{:?}{:?}{}{}", o1.state, o1.batch, o1.bsei.supply, o1.stsei.supply).as_bytes());
        if !self.seen_states.insert(key) || (cx.idx % 3 != 0 && !matches!(step.rop, ROp::Slash { .. })) {
            return;
        }
        self.probes += 1;
        let odd_state = o1.state.bsei_exchange_rate != Decimal::one()
            || o1.state.stsei_exchange_rate != Decimal::one()
            || (o1.bsei.supply > 0 && o1.bsei.supply < 10)
            || (o1.stsei.supply > 0 && o1.stsei.supply < 10)
            || (o1.state.total_bond_bsei_amount.is_zero() && o1.bsei_claims() > 0)
            || (o1.state.total_bond_stsei_amount.is_zero() && o1.stsei_claims() > 0);
        if odd_state {
            self.nontrivial = true;
            out.label("probe_in_slashed_dust_or_drained_state");
        }
        let _ = o0;
        for st in [false, true] {
            let t = if st { &o1.stsei } else { &o1.bsei };
            for (holder, b) in &t.balances {
                if *b == 0 || !holder.starts_with("user") {
                    continue;
                }
                let mut amounts = vec![(*b, "all")];
                if *b > 1 {
                    amounts.push((1, "one"));
                }
                if *b > 3 {
                    amounts.push((*b / 2, "half"));
                }
                for (a, label) in amounts {
                    out.count("exit_probes", 1);
                    if let Some(x) = self.exit_probe(cx, holder, st, a, label) {
                        if crate::runner::tolerated(&x.signature) {
                            // known finding: excluded (counted) so that the search continues behind it
                            out.count(&format!("known_finding_excluded/{}", x.signature), 1);
                            out.known.push(x);
                            continue;
                        }
                        out.fail(x);
                        return;
                    }
                }
            }
        }
    }
    fn finish(&mut self, _cfg: &Cfg, _w: &World, _o: &Obs, out: &mut CaseResult) {
        out.nontrivial = self.nontrivial;
    }
}
