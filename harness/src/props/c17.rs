//! C17 — the dispatcher splits rewards by bonded stake, takes a bounded fee, keeps nothing.
use crate::chain::*;
use crate::deploy::*;
use crate::hist::*;
use crate::runner::*;
use crate::util::*;
use basset_sei_rewards_dispatcher::msg::ExecuteMsg as DExec;
use cosmwasm_std::{Decimal, Uint128, Uint512};
use proptest::prelude::*;
use serde::{Deserialize, Serialize};

const ID: &str = "C17";

#[derive(Clone, Debug, Serialize, Deserialize)]
pub struct Case {
    pub keeper_rate: Dec,
    pub price: Dec,
    /// dispatcher balances: stSei reward coin (usei), bSei reward coin (kusd), a third swappable coin, an unknown coin
    pub bal_st: Uint128,
    pub bal_b: Uint128,
    pub bal_third: Uint128,
    pub bal_junk: Uint128,
    /// a listed third coin whose denom sorts before the bSei reward coin
    #[serde(default)]
    pub bal_ibc: Uint128,
    /// the bonded pair the hub passes
    pub bonded_b: Uint128,
    pub bonded_st: Uint128,
    /// keeper-rate updates applied (by the owner) before the swap
    pub rate_updates: Vec<Dec>,
    /// swap-denom list updates applied (by the owner) before the swap: (coin index into
    /// [usei, kusd, uatom, ujunk], add?); the two reward coins are only ever (re-)added, never removed (E3)
    #[serde(default)]
    pub denom_updates: Vec<(u8, bool)>,
}

pub struct C17;

fn magnitude() -> BoxedStrategy<Uint128> {
    prop_oneof![
        2 => Just(0u128),
        2 => 1u128..20,
        2 => 1u128..100_000,
        2 => (1u128..1000).prop_map(|m| m * 1_000_000),
        2 => (1u128..1_000_000).prop_map(|m| m * 1_000_000_000),
        1 => (1u128..1000).prop_map(|m| m * 1_000_000_000_000_000),
        1 => 1u128..=1_000_000_000_000_000_000u128,
    ]
    .prop_map(Uint128::new)
    .boxed()
}

fn rate_grid() -> BoxedStrategy<Dec> {
    prop_oneof![
        1 => Just(0u128), 1 => Just(1u128), 3 => Just(ONE / 20), 1 => Just(ONE / 2), 1 => Just(ONE - 1), 1 => Just(ONE),
        3 => 0..=ONE,
    ]
    .prop_map(Dec::new)
    .boxed()
}

fn rate_update() -> BoxedStrategy<Dec> {
    prop_oneof![
        3 => rate_grid(),
        1 => Just(Dec::new(ONE + 1)),
        1 => Just(Dec::new(2 * ONE)),
        1 => (ONE + 1..=ONE * 1000).prop_map(Dec::new),
    ]
    .boxed()
}

pub fn strategy() -> BoxedStrategy<Case> {
    (
        rate_grid(),
        prop_oneof![2 => Just(Dec::new(ONE)), 5 => price_strategy()],
        (magnitude(), magnitude(), prop_oneof![3 => Just(Uint128::zero()), 1 => magnitude()], prop_oneof![3 => Just(Uint128::zero()), 1 => magnitude()], prop_oneof![2 => Just(Uint128::zero()), 1 => magnitude()]),
        (magnitude(), magnitude()),
        proptest::collection::vec(rate_update(), 0..3),
        prop_oneof![3 => Just(vec![]), 2 => proptest::collection::vec((0u8..5, prop_oneof![3 => Just(true), 1 => Just(false)]), 1..4)],
    )
        .prop_map(|(keeper_rate, price, (bal_st, bal_b, bal_third, bal_junk, bal_ibc), (bonded_b, bonded_st), rate_updates, denom_updates)| Case {
            keeper_rate,
            price,
            bal_st,
            bal_b,
            bal_third,
            bal_junk,
            bal_ibc,
            bonded_b,
            bonded_st,
            rate_updates,
            denom_updates,
        })
        .boxed()
}

fn v(sig: &str, detail: String) -> Violation {
    Violation::new(ID, format!("{}/{}", ID, sig), detail)
}

/// role names used in signatures
fn role(addr: &str) -> &'static str {
    match addr {
        KEEPER => "keeper",
        REWARD => "reward",
        HUB => "hub",
        _ => "other",
    }
}
fn coin_role(denom: &str) -> &'static str {
    match denom {
        KUSD => "bsei_coin",
        USEI => "stsei_coin",
        _ => "other_coin",
    }
}

/// zero-send signature suffix from a strict-mode bank error, e.g. "bank: invalid coins: 0kusd from dispatcher to keeper"
pub fn zero_send_from_error(e: &str) -> Option<String> {
    let i = e.find("bank: invalid coins: 0")?;
    let rest = &e[i + "bank: invalid coins: 0".len()..];
    let mut it = rest.split(' ');
    let denom = it.next()?;
    let (_from_kw, from, _to_kw, to) = (it.next()?, it.next()?, it.next()?, it.next()?);
    if from != DISP {
        return None;
    }
    Some(format!("zero-send/{}/{}", role(to), coin_role(denom)))
}

/// exact stSei-side share of the total rewards, in stSei-reward units:
/// floor((avail_st + avail_b / p) * st / (st + b)), and the tolerance tau = 8 + ceil(2 / p)
pub fn exact_share(avail_st: u128, avail_b: u128, p: Decimal, st: u128, b: u128) -> (u128, u128) {
    let pa = Uint512::from(p.atomics().u128());
    let one = Uint512::from(ONE);
    let num = (Uint512::from(avail_st) * pa + Uint512::from(avail_b) * one) * Uint512::from(st);
    let den = pa * Uint512::from(st + b);
    let share = to_u128_512(num / den);
    let inv_ceil = to_u128_512((Uint512::from(2u128) * one + pa - Uint512::from(1u128)) / pa);
    (share, 8 + inv_ceil)
}

impl Prop for C17 {
    type Case = Case;
    fn id(&self) -> &'static str {
        ID
    }
    fn rule(&self) -> String {
        "generated direct dispatcher inputs on a deployed world: dispatcher balances of both reward coins, a third swappable coin and an unknown coin from magnitude classes (incl. 0 and one-sided), bonded pair (incl. one side 0), oracle price m*10^e (e in -9..9), keeper-rate grid + random, keeper-rate update sequences (incl. > 1); SwapToRewardDenom and DispatchRewards executed with the hub as sender; non-trivial = a real swap (offer > 0) with non-zero keeper and remainder parts on both coins; distinct by hash of the case".into()
    }
    fn assumptions(&self) -> Vec<String> {
        vec![
            super::ENVELOPE.to_string(),
            "swap stub converts at exactly the oracle price rounding down, in simulation and execution (E5)".into(),
            "bank module rejects zero-amount coins (E2f)".into(),
        ]
    }
    fn strategy(&self, _tier: Tier) -> BoxedStrategy<Case> {
        strategy()
    }
    fn cases(&self, tier: Tier) -> u32 {
        match tier {
            Tier::Quick => 100000,
            Tier::Thorough => 3_000_000,
        }
    }
    fn check(&self, c: &Case, lenient: bool) -> CaseResult {
        let mut out = CaseResult::default();
        out.work = 1;
        let cfg = Cfg { keeper_rate: c.keeper_rate, price: c.price, n_vals: 2, n_reg: 2, ..Cfg::default() };
        let mut w = deploy(&cfg);
        w.lenient_zero_send = lenient;
        // ---- a keeper rate above 1 is rejected at instantiate and at update, and never stored
        let mut cur = c.keeper_rate;
        for r in &c.rate_updates {
            let res = w.tx(
                OWNER,
                DISP,
                &DExec::UpdateConfig {
                    hub_contract: None,
                    bsei_reward_contract: None,
                    stsei_reward_denom: None,
                    bsei_reward_denom: None,
                    krp_keeper_address: None,
                    krp_keeper_rate: Some(r.dec()),
                },
                &[],
            );
            if r.atomics() > ONE {
                out.label("rate_above_one_tried");
                if res.is_ok() {
                    out.fail(v("rate-above-one-accepted/update", format!("UpdateConfig accepted keeper rate {}", r.dec())));
                    return out;
                }
            } else if res.is_ok() {
                cur = *r;
            } else {
                out.fail(v("valid-rate-rejected", format!("UpdateConfig rejected keeper rate {}: {:?}", r.dec(), res.err())));
                return out;
            }
            let conf: basset::dispatcher::ConfigResponse = w
                .query(DISP, &basset_sei_rewards_dispatcher::msg::QueryMsg::Config {})
                .unwrap_or_else(|e| crate::obs::qfail("dispatcher Config", e));
            if conf.krp_keeper_rate != cur.dec() || conf.krp_keeper_rate > Decimal::one() {
                out.fail(v("stored-rate", format!("stored keeper rate {} after updates, expected {}", conf.krp_keeper_rate, cur.dec())));
                return out;
            }
        }
        if !c.rate_updates.is_empty() {
            let mut bad = dispatcher_init(&cfg);
            bad.krp_keeper_rate = Decimal::one() + Decimal::from_atomics(1u128 + c.bal_st.u128() % 1000, 18).unwrap();
            if w.instantiate(Kind::Dispatcher, OWNER, "dispatcher2", &bad).is_ok() {
                out.fail(v("rate-above-one-accepted/instantiate", format!("instantiate accepted keeper rate {}", bad.krp_keeper_rate)));
                return out;
            }
        }
        let rate = cur.dec();
        // ---- swap-denom list updates: a coin is considered iff it is listed, however often it was added
        let mut listed = [true, true, true, false, true];
        for (ci, add) in &c.denom_updates {
            let ci = (*ci as usize) % 5;
            let denom = [USEI, KUSD, UATOM, UJUNK, UIBC][ci];
            let add = *add || ci < 2; // the reward coins are never removed (E3)
            if let Err(e) = w.tx(OWNER, DISP, &DExec::UpdateSwapDenom { swap_denom: denom.into(), is_add: add }, &[]) {
                out.fail(v("swap-denom-update-rejected", format!("owner's UpdateSwapDenom({}, {}) failed: {}", denom, add, e)));
                return out;
            }
            listed[ci] = add;
            out.label("swap_denom_list_updated");
        }
        // ---- balances
        let (a_st, a_b, a_third, a_junk) = (c.bal_st.u128(), c.bal_b.u128(), c.bal_third.u128(), c.bal_junk.u128());
        let a_ibc = c.bal_ibc.u128();
        w.mint(DISP, UIBC, a_ibc);
        if a_ibc > 0 && a_b > 0 {
            out.label("third_coin_sorting_before_bsei_coin");
        }
        w.mint(DISP, USEI, a_st);
        w.mint(DISP, KUSD, a_b);
        w.mint(DISP, UATOM, a_third);
        w.mint(DISP, UJUNK, a_junk);
        let (b, st) = (c.bonded_b.u128(), c.bonded_st.u128());
        if b + st == 0 {
            out.label("nothing_bonded_skipped");
            return out;
        }
        if b == 0 || st == 0 {
            out.label("one_sided_bonded_pair");
        }
        if a_st == 0 || a_b == 0 {
            out.label("one_sided_balances");
        }
        // ---- swap
        w.trace.clear();
        let res = w.tx(
            HUB,
            DISP,
            &DExec::SwapToRewardDenom { bsei_total_bonded: Uint128::new(b), stsei_total_bonded: Uint128::new(st) },
            &[],
        );
        let evs = match res {
            Ok(e) => e,
            Err(e) => {
                let sig = if e.contains("insufficient funds") { "swap-offers-more-than-held" } else { "swap-fails" };
                out.fail(v(sig, format!("SwapToRewardDenom(b {}, st {}) with balances {} usei / {} kusd / {} uatom / {} ibc at price {} fails: {}", b, st, a_st, a_b, a_third, a_ibc, c.price.dec(), e)));
                return out;
            }
        };
        // every swap execution carries funds the dispatcher held (the bank enforces it; assert the trace agrees)
        let mut offered_usei = 0u128;
        let mut offered_kusd = 0u128;
        for (sender, _, funds) in execs_to(&evs, SWAP) {
            if sender != DISP {
                continue;
            }
            for f in funds {
                match f.denom.as_str() {
                    USEI => offered_usei += f.amount.u128(),
                    KUSD => offered_kusd += f.amount.u128(),
                    _ => {}
                }
            }
        }
        // listed third coins are exchanged 1:1 into the bSei reward coin first
        let avail_b = a_b + if listed[2] { a_third } else { 0 } + if listed[3] { a_junk } else { 0 } + if listed[4] { a_ibc } else { 0 };
        if offered_usei > a_st || offered_kusd > avail_b {
            out.fail(v("swap-offers-more-than-held", format!("offered {} usei / {} kusd with {} / {} available", offered_usei, offered_kusd, a_st, avail_b)));
            return out;
        }
        if w.balance(DISP, UIBC) != if listed[4] { 0 } else { a_ibc } {
            out.fail(v("third-coin-not-swapped", format!("{} {} left on the dispatcher", w.balance(DISP, UIBC), UIBC)));
            return out;
        }
        if w.balance(DISP, UATOM) != 0 && a_third > 0 && listed[2] {
            out.fail(v("third-coin-not-swapped", format!("{} uatom left on the dispatcher", w.balance(DISP, UATOM))));
            return out;
        }
        let after_st = w.balance(DISP, USEI);
        let after_b = w.balance(DISP, KUSD);
        let (share, tau) = exact_share(a_st, avail_b, c.price.dec(), st, b);
        if absdiff(after_st, share) > tau {
            out.fail(v(
                "stsei-share",
                format!(
                    "after the swap the dispatcher holds {} usei / {} kusd; exact stSei share of ({} usei + {} kusd at price {}) x {} / ({} + {}) is {} (tolerance {})",
                    after_st, after_b, a_st, avail_b, c.price.dec(), st, st, b, share, tau
                ),
            ));
            return out;
        }
        // ---- dispatch
        w.trace.clear();
        let held_b = after_b;
        let held_st = after_st;
        let keeper0 = (w.balance(KEEPER, KUSD), w.balance(KEEPER, USEI));
        let reward0 = w.balance(REWARD, KUSD);
        let hub_deleg0 = w.delegated(HUB);
        let res = w.tx(HUB, DISP, &DExec::DispatchRewards {}, &[]);
        let evs = match res {
            Ok(e) => e,
            Err(e) => {
                let sig = zero_send_from_error(&e).unwrap_or_else(|| "dispatch-fails".to_string());
                out.fail(v(&sig, format!("DispatchRewards with {} kusd / {} usei at keeper rate {} fails: {}", held_b, held_st, rate, e)));
                return out;
            }
        };
        let mut zero_sends = vec![];
        for e in &evs {
            if let Ev::ZeroSend { from, to, denom } = e {
                if from == DISP {
                    zero_sends.push(format!("zero-send/{}/{}", role(to), coin_role(denom)));
                }
            }
        }
        let k_b = mul_floor(held_b, rate);
        let k_st = mul_floor(held_st, rate);
        let got_kb = w.balance(KEEPER, KUSD) - keeper0.0;
        let got_kst = w.balance(KEEPER, USEI) - keeper0.1;
        if got_kb != k_b || got_kst != k_st {
            out.fail(v(
                "keeper-fee",
                format!("keeper received {} kusd / {} usei, expected floor({} x {}) = {} and floor({} x {}) = {}", got_kb, got_kst, held_b, rate, k_b, held_st, rate, k_st),
            ));
            return out;
        }
        let got_reward = w.balance(REWARD, KUSD) - reward0;
        let rebonded = w.delegated(HUB) - hub_deleg0;
        if got_reward != held_b - k_b || rebonded != held_st - k_st {
            out.fail(v(
                "remainder-forwarding",
                format!("reward contract received {} (expected {}), hub re-bonded {} (expected {})", got_reward, held_b - k_b, rebonded, held_st - k_st),
            ));
            return out;
        }
        if w.balance(DISP, KUSD) != 0 || w.balance(DISP, USEI) != 0 {
            out.fail(v("dispatcher-keeps-coins", format!("{} kusd / {} usei left on the dispatcher", w.balance(DISP, KUSD), w.balance(DISP, USEI))));
            return out;
        }
        if w.balance(DISP, UJUNK) != if listed[3] { 0 } else { a_junk } {
            out.fail(v("unknown-coin-touched", format!("ujunk {} -> {}", a_junk, w.balance(DISP, UJUNK))));
            return out;
        }
        // message order: the index update of the reward contract comes after the coins were delivered to it
        let pos_send = evs.iter().position(|e| matches!(e, Ev::Bank { from, to, .. } if from == DISP && to == REWARD));
        let pos_idx = evs.iter().position(|e| matches!(e, Ev::Exec { contract, msg, .. } if contract == REWARD && msg.contains("update_global_index")));
        match (pos_send, pos_idx) {
            (_, None) => {
                out.fail(v("index-update-missing", "DispatchRewards did not call the reward contract's index update".into()));
                return out;
            }
            (Some(s), Some(i)) if s > i => {
                out.fail(v("index-update-before-delivery", "the reward contract's index was updated before the coins arrived".into()));
                return out;
            }
            _ => {}
        }
        if held_st - k_st > 0 && !execs_to(&evs, HUB).iter().any(|(s, m, f)| *s == DISP && m.starts_with("{\"bond_rewards\"") && f.iter().any(|c| c.denom == USEI && c.amount.u128() == held_st - k_st)) {
            out.fail(v("rebond-message", "the stSei share was not sent to the hub with BondRewards".into()));
            return out;
        }
        for z in zero_sends {
            // (lenient mode only) recorded and skipped by the simulator; the bank would have rejected it
            out.fail(v(&z, format!("DispatchRewards with {} kusd / {} usei at keeper rate {} emits a bank send of zero coins", held_b, held_st, rate)));
        }
        if (offered_usei > 0 || offered_kusd > 0) && k_b > 0 && k_st > 0 && held_b - k_b > 0 && held_st - k_st > 0 {
            out.nontrivial = true;
            out.label("real_swap_with_fee_and_remainder");
        }
        if offered_usei > 0 {
            out.label("sold_stsei_coin");
        }
        if offered_kusd > 0 {
            out.label("sold_bsei_coin");
        }
        if rate.is_zero() || rate == Decimal::one() {
            out.label("rate_0_or_1");
        }
        if (held_b > 0 && held_b < 20) || (held_st > 0 && held_st < 20) {
            out.label("dust_balances");
        }
        out
    }
}
