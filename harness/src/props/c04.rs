//! C04 — no user operation dilutes holders: a rate falls only through slashing.
use super::*;
use crate::util::*;

pub struct C04 {
    nontrivial: bool,
}

const ID: &str = "C04";

pub fn prop() -> HistProp {
    HistProp {
        id: ID,
        rule: "generated full-system histories; exact Decimal comparison of each token's reported rate across every non-slashing step (supply+requested > 0 and backing > 0 before and after), plus floor(balance x rate) of every holder whose balance did not move; non-trivial = a step changed supply or backing of a token while some passive holder held it; distinct by hash of the case",
        profile: |t| {
            let mut p = Profile::base();
            p.accrue = 6;
            p.update_index = 5;
            p.convert = 8;
            p.burn_from = 2;
            p.hook_from = 3;
            p.params = 2;
            p.slash = 3;
            long(p, t)
        },
        cfgs: cfg_strategy,
        quick: 4000,
        thorough: 30000,
        mk: |_, _, _| Box::new(C04 { nontrivial: false }),
        extra: None,
        many_batches: 0,
        zero_arrival: 0,
    }
}

fn v(sig: &str, detail: String) -> Violation {
    Violation::new(ID, format!("{}/{}", ID, sig), detail)
}

impl Checker for C04 {
    fn step(&mut self, cx: &StepCx, out: &mut CaseResult) {
        let (o0, o1, step) = (cx.o0, cx.o1, cx.step);
        if step.rop.is_slash() {
            return; // slashing is the one admitted cause; it resets the baseline
        }
        let name = step.rop.name();
        for st in [false, true] {
            let (tname, c0, c1, b0, b1, r0, r1, t0, t1) = if st {
                ("stsei", o0.stsei_claims(), o1.stsei_claims(), o0.state.total_bond_stsei_amount.u128(), o1.state.total_bond_stsei_amount.u128(),
                 o0.state.stsei_exchange_rate, o1.state.stsei_exchange_rate, &o0.stsei, &o1.stsei)
            } else {
                ("bsei", o0.bsei_claims(), o1.bsei_claims(), o0.state.total_bond_bsei_amount.u128(), o1.state.total_bond_bsei_amount.u128(),
                 o0.state.bsei_exchange_rate, o1.state.bsei_exchange_rate, &o0.bsei, &o1.bsei)
            };
            if c0 > 0 && c1 > 0 && b0 > 0 && b1 > 0 && o0.delegated > 0 && o1.delegated > 0 {
                if r1 < r0 {
                    out.fail(v(
                        &format!("rate-fell/{}/{}", tname, name),
                        format!("{}: {} rate {} -> {} (backing {} -> {}, claims {} -> {})", step.desc(), tname, r0, r1, b0, b1, c0, c1),
                    ));
                    return;
                }
                // passive holders: balance unchanged across the step
                let mut passive = false;
                for (a, bal0) in &t0.balances {
                    if *bal0 == 0 {
                        continue;
                    }
                    if t1.balances.get(a).copied().unwrap_or(0) == *bal0 {
                        passive = true;
                        let (v0, v1) = (mul_floor(*bal0, r0), mul_floor(*bal0, r1));
                        if v1 < v0 {
                            out.fail(v(
                                &format!("holder-value-fell/{}/{}", tname, name),
                                format!("{}: value of {}'s {} {} fell {} -> {}", step.desc(), a, bal0, tname, v0, v1),
                            ));
                            return;
                        }
                    }
                }
                if passive && (c0 != c1 || b0 != b1) {
                    self.nontrivial = true;
                    out.label(if st { "stsei_pool_moved_around_passive_holder" } else { "bsei_pool_moved_around_passive_holder" });
                }
            }
        }
        // re-bonding rewards: raises the stSei rate, mints nothing
        if step.ok() {
            let mut rebonded = 0u128;
            for (_, m, funds) in execs_to(step.evs(), HUB) {
                if m.starts_with("{\"bond_rewards\"") {
                    rebonded += funds.iter().filter(|c| c.denom == USEI).map(|c| c.amount.u128()).sum::<u128>();
                }
            }
            if rebonded > 0 {
                out.label("bond_rewards_executed");
                // no token is minted or burnt by an index update / validator removal
                if matches!(step.rop, ROp::UpdateIndex { .. } | ROp::RemoveVal { .. } | ROp::Redelegations { .. })
                    && (o1.stsei.supply != o0.stsei.supply || o1.bsei.supply != o0.bsei.supply)
                {
                    out.fail(v(
                        "bond-rewards-changed-supply",
                        format!("{}: stSei supply {} -> {}, bSei supply {} -> {}", step.desc(), o0.stsei.supply, o1.stsei.supply, o0.bsei.supply, o1.bsei.supply),
                    ));
                    return;
                }
                let c = o0.stsei_claims();
                if c > 0 && o0.state.total_bond_stsei_amount.u128() > 0 && o0.delegated > 0 {
                    let (r0, r1) = (o0.state.stsei_exchange_rate, o1.state.stsei_exchange_rate);
                    let strictly = u256(rebonded) * u256(ONE) >= u256(c);
                    if r1 < r0 || (strictly && r1 <= r0) {
                        out.fail(v(
                            "bond-rewards-rate-not-raised",
                            format!("{}: re-bonded {} over claims {} but stSei rate {} -> {}", step.desc(), rebonded, c, r0, r1),
                        ));
                    }
                }
            }
        }
    }
    fn finish(&mut self, _cfg: &Cfg, _w: &World, _o: &Obs, out: &mut CaseResult) {
        out.nontrivial = self.nontrivial;
    }
}
