//! One module per property (C01..C20) plus the shared history-property adapter.
use crate::chain::World;
use crate::deploy::*;
use crate::hist::*;
use crate::obs::Obs;
use crate::ops::*;
use crate::runner::*;
use proptest::strategy::{BoxedStrategy, Strategy};

pub mod c01;
pub mod c02;
pub mod c03;
pub mod c04;
pub mod c05;
pub mod c06;
pub mod c07;
pub mod c08;
pub mod c09;
pub mod c10;
pub mod c11;
pub mod c12;
pub mod c13;
pub mod c14;
pub mod c15;
pub mod c16;
pub mod c17;
pub mod c18;
pub mod c19;
pub mod c20;
pub mod common;

impl Checker for Box<dyn Checker> {
    fn step(&mut self, cx: &StepCx, out: &mut CaseResult) {
        (**self).step(cx, out)
    }
    fn finish(&mut self, cfg: &Cfg, w: &World, o: &Obs, out: &mut CaseResult) {
        (**self).finish(cfg, w, o, out)
    }
}

/// Adapter: a property decided over generated full-system histories.
pub struct HistProp {
    pub id: &'static str,
    pub rule: &'static str,
    pub profile: fn(Tier) -> Profile,
    pub cfgs: fn() -> BoxedStrategy<Cfg>,
    pub quick: u32,
    pub thorough: u32,
    pub mk: fn(&Cfg, &World, &Obs) -> Box<dyn Checker>,
    /// structured scenario generator mixed into the general one (weight out of 10)
    pub extra: Option<(u32, fn(Tier) -> BoxedStrategy<History>)>,
}

pub const ENVELOPE: &str = "operating envelope of DESIGN.md section 4 (E1 magnitudes <= 1e18, E2 simulator abstraction of bank/staking/distribution, E3 trusted owner configuration, E4 slashing never leaves the hub without stake, E5 swap/oracle stubs, E6 principals)";

impl Prop for HistProp {
    type Case = History;
    fn id(&self) -> &'static str {
        self.id
    }
    fn rule(&self) -> String {
        self.rule.to_string()
    }
    fn assumptions(&self) -> Vec<String> {
        vec![
            ENVELOPE.to_string(),
            "minichain simulator (harness/src/chain.rs) is the trusted model of the chain modules".to_string(),
            "zero-amount bank sends emitted by the dispatcher (known finding C17/C19) are recorded and skipped so that histories continue".to_string(),
        ]
    }
    fn strategy(&self, tier: Tier) -> BoxedStrategy<History> {
        let general = history_strategy(&(self.profile)(tier), (self.cfgs)());
        match self.extra {
            Some((w, f)) if w > 0 => {
                proptest::strategy::Union::new_weighted(vec![(10 - w.min(9), general), (w.min(9), f(tier))]).boxed()
            }
            _ => general,
        }
    }
    fn cases(&self, tier: Tier) -> u32 {
        match tier {
            Tier::Quick => self.quick,
            Tier::Thorough => self.thorough,
        }
    }
    fn check(&self, case: &History, _lenient: bool) -> CaseResult {
        // the dispatcher's zero-send finding belongs to C17/C19; for every other history property it is
        // excluded by construction in exploration and replay alike
        run_history(case, true, self.mk)
    }
}

pub fn long(p: Profile, tier: Tier) -> Profile {
    let mut p = p;
    if tier == Tier::Thorough {
        p.len = p.len.start..(p.len.end * 5 / 2);
    }
    p
}
