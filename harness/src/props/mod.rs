//! One module per property (C01..C20) plus the shared history-property adapter.
use crate::chain::World;
use crate::deploy::*;
use crate::hist::*;
use crate::obs::Obs;
use crate::ops::*;
use crate::runner::*;
use proptest::strategy::{BoxedStrategy, Strategy};

pub mod c01;
pub mod c02;
pub mod c03;
pub mod c04;
pub mod c05;
pub mod c06;
pub mod c07;
pub mod c08;
pub mod c09;
pub mod c10;
pub mod c11;
pub mod c12;
pub mod c13;
pub mod c14;
pub mod c15;
pub mod c16;
pub mod c17;
pub mod c18;
pub mod c19;
pub mod c20;
pub mod common;

impl Checker for Box<dyn Checker> {
    fn step(&mut self, cx: &StepCx, out: &mut CaseResult) {
        (**self).step(cx, out)
    }
    fn finish(&mut self, cfg: &Cfg, w: &World, o: &Obs, out: &mut CaseResult) {
        (**self).finish(cfg, w, o, out)
    }
}

/// Adapter: a property decided over generated full-system histories.
pub struct HistProp {
    pub id: &'static str,
    pub rule: &'static str,
    pub profile: fn(Tier) -> Profile,
    pub cfgs: fn() -> BoxedStrategy<Cfg>,
    pub quick: u32,
    pub thorough: u32,
    pub mk: fn(&Cfg, &World, &Obs) -> Box<dyn Checker>,
    /// structured scenario generator mixed into the general one (weight out of 10)
    pub extra: Option<(u32, fn(Tier) -> BoxedStrategy<History>)>,
    /// weight (out of 10) of the many-batches scenario generator
    pub many_batches: u32,
    /// weight (out of 10) of the zero-arrival-batch scenario generator
    pub zero_arrival: u32,
}

pub const ENVELOPE: &str = "operating envelope of DESIGN.md section 4 (E1 magnitudes <= 1e18, E2 simulator abstraction of bank/staking/distribution, E3 trusted owner configuration, E4 slashing never leaves the hub without stake, E5 swap/oracle stubs, E6 principals)";

impl Prop for HistProp {
    type Case = History;
    fn id(&self) -> &'static str {
        self.id
    }
    fn rule(&self) -> String {
        self.rule.to_string()
    }
    fn assumptions(&self) -> Vec<String> {
        vec![
            ENVELOPE.to_string(),
            "minichain simulator (harness/src/chain.rs) is the trusted model of the chain modules".to_string(),
            "zero-amount bank sends emitted by the dispatcher (known finding C17/C19) are recorded and skipped so that histories continue".to_string(),
        ]
    }
    fn strategy(&self, tier: Tier) -> BoxedStrategy<History> {
        let general = history_strategy(&(self.profile)(tier), (self.cfgs)());
        let mut parts: Vec<(u32, BoxedStrategy<History>)> = vec![];
        let mut used = 0;
        if let Some((w, f)) = self.extra {
            if w > 0 {
                parts.push((w, f(tier)));
                used += w;
            }
        }
        if self.many_batches > 0 {
            parts.push((self.many_batches, many_batches_scenario_strategy((self.cfgs)())));
            used += self.many_batches;
        }
        if self.zero_arrival > 0 {
            parts.push((self.zero_arrival, zero_arrival_scenario_strategy((self.cfgs)())));
            used += self.zero_arrival;
        }
        if parts.is_empty() {
            return general;
        }
        parts.push((10u32.saturating_sub(used).max(1), general));
        proptest::strategy::Union::new_weighted(parts).boxed()
    }
    fn cases(&self, tier: Tier) -> u32 {
        match tier {
            Tier::Quick => self.quick,
            Tier::Thorough => self.thorough,
        }
    }
    fn check(&self, case: &History, _lenient: bool) -> CaseResult {
        // the dispatcher's zero-send finding belongs to C17/C19; for every other history property it is
        // excluded by construction in exploration and replay alike
        run_history(case, true, self.mk)
    }
}

pub fn long(p: Profile, tier: Tier) -> Profile {
    let mut p = p;
    if tier == Tier::Thorough {
        p.len = p.len.start..(p.len.end * 5 / 2);
    }
    p
}

/// Run one history through the check of a history-family property (used by the libFuzzer `hist` target).
pub fn fuzz_history(id: &str, h: &History) -> Option<(Violation, std::path::PathBuf)> {
    macro_rules! go {
        ($p:expr) => {{
            let p = $p;
            fuzz_one(&p, h).map(|v| {
                let path = save_fuzz_replay(&p, h, &v);
                (v, path)
            })
        }};
    }
    match id {
        "C01" => go!(c01::prop()),
        "C02" => go!(c02::prop()),
        "C03" => go!(c03::prop()),
        "C04" => go!(c04::prop()),
        "C05" => go!(c05::prop()),
        "C06" => go!(c06::prop()),
        "C07" => go!(c07::prop()),
        "C08" => go!(c08::prop()),
        "C09" => go!(c09::prop()),
        "C13" => go!(c13::prop()),
        "C14" => go!(c14::prop()),
        "C16" => go!(c16::prop()),
        "C19" => go!(c19::C19Prop),
        _ => None,
    }
}
pub const HIST_FAMILY: [&str; 13] = ["C01", "C02", "C03", "C04", "C05", "C06", "C07", "C08", "C09", "C13", "C14", "C16", "C19"];
