//! C07 — every unbonded token is recorded in exactly one batch claim of its sender.
use super::*;
use crate::obs::hub_history;
use basset::hub::{AllHistoryResponse, QueryMsg as HubQuery};
use std::collections::BTreeMap;

pub struct C07 {
    /// reference claims ledger: (user, batch) -> (bsei, stsei), unpaid entries only
    ledger: BTreeMap<(String, u64), (u128, u128)>,
    /// what the ledger saw paid out per batch (in tokens)
    paid: BTreeMap<u64, (u128, u128)>,
    nontrivial: bool,
}

const ID: &str = "C07";

pub fn prop() -> HistProp {
    HistProp {
        id: ID,
        rule: "generated histories with many users unbonding both tokens through Send and allowance-based SendFrom across epoch boundaries, interleaved with everything else, plus Receive hooks from users and from an unregistered cw20; a reference claims ledger is compared with UnbondRequests / CurrentBatch / AllHistory after every step; non-trivial = a batch with >= 2 users and both token types, or an allowance-based unbond; distinct by hash of the case",
        profile: |t| {
            let mut p = Profile::base();
            p.unbond = 20;
            p.hook_from = 6;
            p.withdraw = 10;
            p.advance = 14;
            p.fake_hook = 3;
            p.transfer = 4;
            p.convert = 4;
            p.prefix_bonds = 3..6;
            long(p, t)
        },
        cfgs: cfg_strategy,
        quick: 4000,
        thorough: 30000,
        mk: |_, _, _| Box::new(C07 { ledger: BTreeMap::new(), paid: BTreeMap::new(), nontrivial: false }),
        extra: None,
        many_batches: 2,
        zero_arrival: 1,
    }
}

fn v(sig: &str, detail: String) -> Violation {
    Violation::new(ID, format!("{}/{}", ID, sig), detail)
}

impl C07 {
    fn compare(&self, o: &Obs, step: &Step) -> Option<Violation> {
        // UnbondRequests of every principal equals the ledger
        let mut seen: BTreeMap<(String, u64), (u128, u128)> = BTreeMap::new();
        for (u, reqs) in &o.requests {
            for (b, x, y) in reqs {
                if seen.insert((u.clone(), *b), (*x, *y)).is_some() {
                    return Some(v("duplicate-entry", format!("after {}: {} has two entries for batch {}", step.desc(), u, b)));
                }
            }
        }
        if seen != self.ledger {
            let diff: Vec<String> = seen
                .iter()
                .filter(|(k, val)| self.ledger.get(*k) != Some(*val))
                .map(|(k, val)| format!("{:?}: reported {:?} ledger {:?}", k, val, self.ledger.get(k)))
                .chain(self.ledger.iter().filter(|(k, _)| !seen.contains_key(*k)).map(|(k, val)| format!("{:?}: missing, ledger {:?}", k, val)))
                .collect();
            return Some(v("requests-differ-from-ledger", format!("after {}: {}", step.desc(), diff.join("; "))));
        }
        // per batch: sum of users' entries + paid = batch total
        let mut sums: BTreeMap<u64, (u128, u128)> = BTreeMap::new();
        for ((_, b), (x, y)) in &self.ledger {
            let e = sums.entry(*b).or_default();
            e.0 += x;
            e.1 += y;
        }
        for (b, (x, y)) in &self.paid {
            let e = sums.entry(*b).or_default();
            e.0 += x;
            e.1 += y;
        }
        let open = o.batch.id;
        for (b, (x, y)) in &sums {
            let total = if *b == open {
                (o.batch.requested_bsei_with_fee.u128(), o.batch.requested_stsei.u128())
            } else if let Some(h) = o.hist(*b) {
                (h.bsei_amount.u128(), h.stsei_amount.u128())
            } else {
                return Some(v("claim-on-unknown-batch", format!("after {}: claims exist on batch {} which is neither open ({}) nor in the history", step.desc(), b, open)));
            };
            if (*x, *y) != total {
                return Some(v(
                    "batch-total-mismatch",
                    format!("after {}: batch {}: users' claims (+ paid) sum to {} / {} but the batch total is {} / {}", step.desc(), b, x, y, total.0, total.1),
                ));
            }
        }
        // batches without any claim must have zero totals
        if !sums.contains_key(&open) && (o.batch.requested_bsei_with_fee.u128(), o.batch.requested_stsei.u128()) != (0, 0) {
            return Some(v("batch-total-mismatch", format!("after {}: open batch {} has totals {:?} but nobody holds a claim on it", step.desc(), open, o.batch)));
        }
        for h in &o.history {
            if !sums.contains_key(&h.batch_id) && (h.bsei_amount.u128(), h.stsei_amount.u128()) != (0, 0) {
                return Some(v("batch-total-mismatch", format!("after {}: history batch {} has totals {} / {} but no claims were ever recorded on it", step.desc(), h.batch_id, h.bsei_amount, h.stsei_amount)));
            }
        }
        None
    }
}

impl Checker for C07 {
    fn step(&mut self, cx: &StepCx, out: &mut CaseResult) {
        let (o0, o1, step) = (cx.o0, cx.o1, cx.step);
        match &step.rop {
            ROp::Hook { owner, caller, st, amount, convert: false } if step.ok() => {
                // tokens burnt: exactly the amount sent, from the owner's balance
                let (t0, t1) = if *st { (&o0.stsei, &o1.stsei) } else { (&o0.bsei, &o1.bsei) };
                let owner_delta = t0.balances.get(owner).copied().unwrap_or(0).saturating_sub(t1.balances.get(owner).copied().unwrap_or(0));
                if t0.supply.saturating_sub(t1.supply) != *amount || owner_delta != *amount {
                    out.fail(v(
                        "burn-amount",
                        format!("{}: supply {} -> {}, owner balance fell by {}", step.desc(), t0.supply, t1.supply, owner_delta),
                    ));
                    return;
                }
                // credited: the cw20 sender (= caller) in the batch that was open, by the growth of the batch total
                let open = o0.batch.id;
                let (tb0, ts0) = (o0.batch.requested_bsei_with_fee.u128(), o0.batch.requested_stsei.u128());
                let (tb1, ts1) = if o1.batch.id == open {
                    (o1.batch.requested_bsei_with_fee.u128(), o1.batch.requested_stsei.u128())
                } else if let Some(h) = o1.hist(open) {
                    (h.bsei_amount.u128(), h.stsei_amount.u128())
                } else {
                    out.fail(v("batch-lost", format!("{}: batch {} is neither open nor in the history", step.desc(), open)));
                    return;
                };
                let (db, ds) = (tb1.saturating_sub(tb0), ts1.saturating_sub(ts0));
                let ok = if *st { db == 0 && ds == *amount } else { ds == 0 && db <= *amount };
                // "less the peg fee": no fee at or above the threshold, and never more than amount x fee (C05 bounds it further)
                if !*st && ok {
                    let (rb, thr, fee) = (o0.state.bsei_exchange_rate, o0.params.er_threshold, o0.params.peg_recovery_fee);
                    let least = if rb >= thr { *amount } else { *amount - crate::util::mul_floor(*amount, fee) };
                    if db < least {
                        out.fail(v(
                            "credited-less-than-amount-less-fee",
                            format!("{}: {} bSei sent at rate {} (threshold {}, fee {}) but only {} credited (at least {} due)", step.desc(), amount, rb, thr, fee, db, least),
                        ));
                        return;
                    }
                }
                if !ok || tb1 < tb0 || ts1 < ts0 {
                    out.fail(v(
                        "credited-amount",
                        format!("{}: batch {} totals {} / {} -> {} / {} for {} {} sent", step.desc(), open, tb0, ts0, tb1, ts1, amount, if *st { "stSei" } else { "bSei" }),
                    ));
                    return;
                }
                let e = self.ledger.entry((caller.clone(), open)).or_default();
                e.0 += db;
                e.1 += ds;
                if owner != caller {
                    self.nontrivial = true;
                    out.label("allowance_based_unbond");
                }
                // classification: batch with >= 2 users and both token types
                let users: std::collections::BTreeSet<&String> = self.ledger.keys().filter(|(_, b)| *b == open).map(|(u, _)| u).collect();
                let both = self.ledger.iter().filter(|((_, b), _)| *b == open).fold((0u128, 0u128), |a, (_, e)| (a.0 + e.0, a.1 + e.1));
                if users.len() >= 2 && both.0 > 0 && both.1 > 0 {
                    self.nontrivial = true;
                    out.label("batch_with_2plus_users_and_both_tokens");
                }
            }
            ROp::Withdraw { user: u } if step.ok() => {
                // the owner's entries on batches that are released now vanish; they were paid
                let keys: Vec<(String, u64)> = self.ledger.keys().filter(|(who, _)| who == u).cloned().collect();
                for k in keys {
                    if o1.hist(k.1).map(|h| h.released).unwrap_or(false) {
                        let e = self.ledger.remove(&k).unwrap();
                        let p = self.paid.entry(k.1).or_default();
                        p.0 += e.0;
                        p.1 += e.1;
                    }
                }
            }
            ROp::FakeHook { via_fake20, .. } => {
                if step.ok() {
                    out.fail(v(
                        &format!("foreign-receive-accepted/{}", if *via_fake20 { "unregistered_cw20" } else { "direct_call" }),
                        format!("{} was accepted", step.desc()),
                    ));
                    return;
                }
                out.count("foreign_receive_rejected", 1);
            }
            _ => {}
        }
        if let Some(x) = self.compare(o1, step) {
            out.fail(x);
            return;
        }
        // AllHistory pagination: small pages concatenate to the same list
        if !o1.history.is_empty() && cx.idx % 7 == 0 {
            let mut acc = vec![];
            let mut start: Option<u64> = None;
            loop {
                let r: AllHistoryResponse = cx
                    .post
                    .query(HUB, &HubQuery::AllHistory { start_from: start, limit: Some(2) })
                    .unwrap_or_else(|e| crate::obs::qfail("hub AllHistory", e));
                if r.history.is_empty() {
                    break;
                }
                start = Some(r.history.last().unwrap().batch_id);
                let n = r.history.len();
                acc.extend(r.history);
                if n < 2 {
                    break;
                }
            }
            if acc != hub_history(cx.post) {
                out.fail(v("history-pagination", format!("after {}: AllHistory in pages of 2 differs from pages of 100", step.desc())));
            }
        }
    }
    fn finish(&mut self, _cfg: &Cfg, _w: &World, _o: &Obs, out: &mut CaseResult) {
        out.nontrivial = self.nontrivial;
    }
}
