//! C20 — stored parameters stay within their valid ranges under any update sequence (reference merge model).
use crate::chain::*;
use crate::deploy::*;
use crate::obs::qfail;
use crate::runner::*;
use basset::hub::{ExecuteMsg as HubExec, Parameters, QueryMsg as HubQuery};
use basset_sei_rewards_dispatcher::msg::{ExecuteMsg as DExec, QueryMsg as DQuery};
use basset_sei_validators_registry::msg::{ExecuteMsg as RegExec, QueryMsg as RegQuery};
use cosmwasm_std::testing::MockApi;
use cosmwasm_std::{Api, Decimal};
use proptest::prelude::*;
use serde::{Deserialize, Serialize};

const ID: &str = "C20";

#[derive(Clone, Debug, Serialize, Deserialize)]
pub enum Msg {
    HubParams { epoch: Option<u64>, unbonding: Option<u64>, fee: Option<Dec>, threshold: Option<Dec>, paused: Option<bool>, reward_denom: Option<String> },
    HubConfig { dispatcher: Option<String>, registry: Option<String>, bsei: Option<String>, stsei: Option<String>, airdrop: Option<String>, rewards: Option<String>, updater: Option<String> },
    DispConfig { hub: Option<String>, reward: Option<String>, st_denom: Option<String>, b_denom: Option<String>, keeper: Option<String>, rate: Option<Dec> },
    DispSwapDenom { denom: String, add: bool },
    DispSwapContract { addr: String },
    DispOracle { addr: String },
    RewardConfig { hub: Option<String>, reward_denom: Option<String>, swap: Option<String> },
    RewardSwapDenom { denom: String, add: bool },
    RegConfig { hub: Option<String> },
}

#[derive(Clone, Debug, Serialize, Deserialize)]
pub struct Step {
    pub by_owner: bool,
    pub msg: Msg,
}

#[derive(Clone, Debug, Serialize, Deserialize)]
pub struct Case {
    pub init_fee: Dec,
    pub init_threshold: Dec,
    pub init_keeper: Dec,
    /// denominations the dispatcher under test is instantiated with (arbitrary strings, possibly empty)
    #[serde(default)]
    pub init_st_denom: Option<String>,
    #[serde(default)]
    pub init_b_denom: Option<String>,
    /// denominations the hub under test is instantiated with (arbitrary strings: mixed case, blanks, ibc/..., empty)
    #[serde(default)]
    pub init_hub_denom: Option<String>,
    #[serde(default)]
    pub init_hub_reward_denom: Option<String>,
    pub steps: Vec<Step>,
}

fn dec_class() -> BoxedStrategy<Dec> {
    prop_oneof![
        2 => Just(0u128), 2 => Just(ONE), 2 => Just(ONE + 1), 1 => Just(2 * ONE), 1 => Just(ONE / 2), 1 => Just(ONE - 1),
        2 => 0u128..=ONE, 1 => ONE..ONE * 1_000_000, 1 => Just(u128::MAX / 2),
    ]
    .prop_map(Dec::new)
    .boxed()
}
fn addr() -> BoxedStrategy<String> {
    prop_oneof![
        6 => proptest::sample::select(vec!["alice", "bob", "carol", "newhub", "newreward", "xyz"]).prop_map(|s| s.to_string()),
        1 => Just("ab".to_string()),
        1 => Just("".to_string()),
        1 => "[a-z]{3,12}",
    ]
    .boxed()
}
fn denom() -> BoxedStrategy<String> {
    prop_oneof![3 => proptest::sample::select(vec!["usei", "kusd", "uatom", "ujunk", "x"]).prop_map(|s| s.to_string()), 1 => "[a-z]{0,8}"].boxed()
}
fn odd_denom() -> BoxedStrategy<String> {
    prop_oneof![
        2 => proptest::sample::select(vec!["ibc/27394FB092D2ECCD56123C74F36E4C1F926001CEADA9CA97EA622B25F41E5EB2", " usei", "uSei", "factory/sei1abc/kUSD", "usei ", ""]).prop_map(|s| s.to_string()),
        1 => denom(),
        1 => "[a-zA-Z/ ]{1,10}",
    ]
    .boxed()
}
fn opt<T: std::fmt::Debug + Clone + 'static>(s: BoxedStrategy<T>) -> BoxedStrategy<Option<T>> {
    proptest::option::weighted(0.4, s).boxed()
}

fn msg_strategy() -> BoxedStrategy<Msg> {
    prop_oneof![
        6 => (opt((0u64..5000).boxed()), opt((0u64..5000).boxed()), opt(dec_class()), opt(dec_class()), opt(any::<bool>().boxed()), opt(denom()))
            .prop_map(|(epoch, unbonding, fee, threshold, paused, reward_denom)| Msg::HubParams { epoch, unbonding, fee, threshold, paused, reward_denom }),
        3 => (opt(addr()), opt(addr()), proptest::option::weighted(0.15, addr()), proptest::option::weighted(0.15, addr()), opt(addr()), opt(addr()), opt(addr()))
            .prop_map(|(dispatcher, registry, bsei, stsei, airdrop, rewards, updater)| Msg::HubConfig { dispatcher, registry, bsei, stsei, airdrop, rewards, updater }),
        6 => (opt(addr()), opt(addr()), proptest::option::weighted(0.15, denom()), opt(denom()), opt(addr()), opt(dec_class()))
            .prop_map(|(hub, reward, st_denom, b_denom, keeper, rate)| Msg::DispConfig { hub, reward, st_denom, b_denom, keeper, rate }),
        2 => (denom(), any::<bool>()).prop_map(|(denom, add)| Msg::DispSwapDenom { denom, add }),
        1 => addr().prop_map(|addr| Msg::DispSwapContract { addr }),
        1 => addr().prop_map(|addr| Msg::DispOracle { addr }),
        3 => (opt(addr()), opt(denom()), opt(addr())).prop_map(|(hub, reward_denom, swap)| Msg::RewardConfig { hub, reward_denom, swap }),
        1 => (denom(), any::<bool>()).prop_map(|(denom, add)| Msg::RewardSwapDenom { denom, add }),
        1 => opt(addr()).prop_map(|hub| Msg::RegConfig { hub }),
    ]
    .boxed()
}

pub fn strategy() -> BoxedStrategy<Case> {
    (
        dec_class(),
        dec_class(),
        dec_class(),
        proptest::option::weighted(0.5, prop_oneof![2 => Just(String::new()), 2 => denom()]),
        proptest::option::weighted(0.3, denom()),
        proptest::option::weighted(0.35, odd_denom()),
        proptest::option::weighted(0.25, odd_denom()),
        proptest::collection::vec((prop_oneof![9 => Just(true), 1 => Just(false)], msg_strategy()).prop_map(|(by_owner, msg)| Step { by_owner, msg }), 1..14),
    )
        .prop_map(|(init_fee, init_threshold, init_keeper, init_st_denom, init_b_denom, init_hub_denom, init_hub_reward_denom, steps)| Case { init_fee, init_threshold, init_keeper, init_st_denom, init_b_denom, init_hub_denom, init_hub_reward_denom, steps })
        .boxed()
}

fn v(sig: &str, detail: String) -> Violation {
    Violation::new(ID, format!("{}/{}", ID, sig), detail)
}

fn valid_addr(a: &str) -> bool {
    MockApi::default().addr_validate(a).is_ok()
}
fn canon_ok(a: &str) -> bool {
    MockApi::default().addr_canonicalize(a).is_ok()
}

#[derive(Clone, Debug, PartialEq)]
struct HubModel {
    params: Parameters,
    owner: String,
    updater: String,
    dispatcher: Option<String>,
    registry: Option<String>,
    bsei: Option<String>,
    stsei: Option<String>,
    airdrop: Option<String>,
}

pub struct C20;

impl Prop for C20 {
    type Case = Case;
    fn id(&self) -> &'static str {
        ID
    }
    fn rule(&self) -> String {
        "generated instantiate parameters (fee, threshold, keeper rate from classes 0, 1, 1+1e-18, 2, huge, random) and sequences of 1-13 owner (sometimes non-owner) update messages over all four owned contracts (hub UpdateParams / UpdateConfig, dispatcher UpdateConfig / UpdateSwapDenom / UpdateSwapContract / UpdateOracleContract, reward UpdateConfig / UpdateSwapDenom, registry UpdateConfig) with every combination of present / absent optional fields, out-of-range rates, valid and malformed addresses; a reference merge model predicts every Parameters / Config query; non-trivial = a message with mixed present / absent fields; class: containing an out-of-range value, rejected multi-field update; distinct by hash of the case".into()
    }
    fn assumptions(&self) -> Vec<String> {
        vec!["addresses are validated by cosmwasm-std's MockApi (3..64 characters, lower case)".into()]
    }
    fn strategy(&self, _tier: Tier) -> BoxedStrategy<Case> {
        strategy()
    }
    fn cases(&self, tier: Tier) -> u32 {
        match tier {
            Tier::Quick => 30000,
            Tier::Thorough => 300_000,
        }
    }
    fn check(&self, c: &Case, _lenient: bool) -> CaseResult {
        let mut out = CaseResult::default();
        let cfg = Cfg::default();
        let mut w = deploy(&cfg);
        // ---------------- instantiate with generated rates: out-of-range creates nothing, in-range is stored (threshold clamped)
        {
            let mut hi = hub_init(&cfg);
            hi.peg_recovery_fee = c.init_fee.dec();
            hi.er_threshold = c.init_threshold.dec();
            if let Some(d) = &c.init_hub_denom {
                hi.underlying_coin_denom = d.clone();
            }
            if let Some(d) = &c.init_hub_reward_denom {
                hi.reward_denom = d.clone();
            }
            let before = w.clone();
            let r = w.instantiate(Kind::Hub, OWNER, "hub2", &hi);
            if c.init_fee.atomics() > ONE {
                out.label("instantiate_out_of_range");
                if r.is_ok() || !w.same_state(&before) {
                    out.fail(v("instantiate-accepts-fee-above-one", format!("hub instantiate with fee {} -> {:?}", c.init_fee.dec(), r)));
                    return out;
                }
            } else {
                match r {
                    Err(e) => {
                        out.fail(v("instantiate-rejects-valid", format!("hub instantiate with fee {} threshold {} fails: {}", c.init_fee.dec(), c.init_threshold.dec(), e)));
                        return out;
                    }
                    Ok(()) => {
                        let p: Parameters = w.query("hub2", &HubQuery::Parameters {}).unwrap_or_else(|e| qfail("hub Parameters", e));
                        if p.peg_recovery_fee != c.init_fee.dec() || p.er_threshold != c.init_threshold.dec().min(Decimal::one()) || p.peg_recovery_fee > Decimal::one() || p.er_threshold > Decimal::one()
                            || p.underlying_coin_denom != c.init_hub_denom.clone().unwrap_or(USEI.into()) || p.reward_denom != c.init_hub_reward_denom.clone().unwrap_or(KUSD.into()) {
                            out.fail(v("instantiate-stored-values", format!("hub instantiated with fee {} threshold {} stores {:?}", c.init_fee.dec(), c.init_threshold.dec(), p)));
                            return out;
                        }
                    }
                }
            }
            let mut di = dispatcher_init(&cfg);
            di.krp_keeper_rate = c.init_keeper.dec();
            if let Some(d) = &c.init_st_denom {
                di.stsei_reward_denom = d.clone();
            }
            if let Some(d) = &c.init_b_denom {
                di.bsei_reward_denom = d.clone();
            }
            let before = w.clone();
            let r = w.instantiate(Kind::Dispatcher, OWNER, "dispatcher2", &di);
            if c.init_keeper.atomics() > ONE {
                out.label("instantiate_out_of_range");
                if r.is_ok() || !w.same_state(&before) {
                    out.fail(v("instantiate-accepts-keeper-rate-above-one", format!("dispatcher instantiate with keeper rate {} -> {:?}", c.init_keeper.dec(), r)));
                    return out;
                }
            } else if let Err(e) = r {
                out.fail(v("instantiate-rejects-valid", format!("dispatcher instantiate with keeper rate {} fails: {}", c.init_keeper.dec(), e)));
                return out;
            }
        }
        // ---------------- reference model of the deployed contracts
        // parameter updates go to the hub instantiated with generated denominations when there is one
        let use_h2 = c.init_fee.atomics() <= ONE && (c.init_hub_denom.is_some() || c.init_hub_reward_denom.is_some());
        let params_addr: &str = if use_h2 { "hub2" } else { HUB };
        let hub_denom0: String = if use_h2 { c.init_hub_denom.clone().unwrap_or(USEI.into()) } else { USEI.into() };
        if use_h2 {
            out.label("hub_with_generated_denoms");
        }
        let mut hub = HubModel {
            params: Parameters {
                epoch_period: cfg.epoch,
                underlying_coin_denom: hub_denom0.clone(),
                unbonding_period: cfg.unbonding,
                peg_recovery_fee: if use_h2 { c.init_fee.dec() } else { cfg.fee.dec() },
                er_threshold: if use_h2 { c.init_threshold.dec().min(Decimal::one()) } else { cfg.threshold.dec() },
                reward_denom: if use_h2 { c.init_hub_reward_denom.clone().unwrap_or(KUSD.into()) } else { KUSD.into() },
                paused: Some(false),
            },
            owner: OWNER.into(),
            updater: UPDATER.into(),
            dispatcher: Some(DISP.into()),
            registry: Some(REG.into()),
            bsei: Some(BSEI.into()),
            stsei: Some(STSEI.into()),
            airdrop: Some(AIRDROP.into()),
        };
        let use_d2 = c.init_keeper.atomics() <= ONE && (c.init_st_denom.is_some() || c.init_b_denom.is_some());
        let disp_addr: &str = if use_d2 { "dispatcher2" } else { DISP };
        let st_denom0: String = if use_d2 { c.init_st_denom.clone().unwrap_or(USEI.into()) } else { USEI.into() };
        if use_d2 {
            out.label("dispatcher_with_generated_denoms");
        }
        let mut disp = basset::dispatcher::ConfigResponse {
            owner: OWNER.into(),
            hub_contract: HUB.into(),
            bsei_reward_contract: REWARD.into(),
            stsei_reward_denom: st_denom0.clone(),
            bsei_reward_denom: if use_d2 { c.init_b_denom.clone().unwrap_or(KUSD.into()) } else { KUSD.into() },
            krp_keeper_address: KEEPER.into(),
            krp_keeper_rate: if use_d2 { c.init_keeper.dec() } else { cfg.keeper_rate.dec() },
            swap_contract: SWAP.into(),
            swap_denoms: vec![USEI.into(), KUSD.into(), UATOM.into(), UIBC.into()],
            oracle_contract: ORACLE.into(),
        };
        let mut rew = basset::reward::ConfigResponse { hub_contract: HUB.into(), reward_denom: KUSD.into(), owner: OWNER.into(), swap_contract: SWAP.into() };
        let mut reg_hub: String = HUB.into();
        let api = MockApi::default();

        for (i, st) in c.steps.iter().enumerate() {
            out.work += 1;
            let sender = if st.by_owner { OWNER } else { "mallory" };
            let before = w.clone();
            let (mut h2, mut d2, mut r2, mut g2) = (hub.clone(), disp.clone(), rew.clone(), reg_hub.clone());
            let mut mixed = false;
            // returns (result, must_accept) ; the model decides acceptance exactly
            let (res, accept): (R<Vec<Ev>>, bool) = match &st.msg {
                Msg::HubParams { epoch, unbonding, fee, threshold, paused, reward_denom } => {
                    let present = [epoch.is_some(), unbonding.is_some(), fee.is_some(), threshold.is_some(), paused.is_some(), reward_denom.is_some()];
                    mixed = present.iter().any(|x| *x) && present.iter().any(|x| !*x);
                    let ok = st.by_owner && fee.map(|f| f.atomics() <= ONE).unwrap_or(true);
                    if fee.map(|f| f.atomics() > ONE).unwrap_or(false) || threshold.map(|t| t.atomics() > ONE).unwrap_or(false) {
                        out.label("out_of_range_value");
                    }
                    if ok {
                        let p = &mut h2.params;
                        p.epoch_period = epoch.unwrap_or(p.epoch_period);
                        p.unbonding_period = unbonding.unwrap_or(p.unbonding_period);
                        p.peg_recovery_fee = fee.map(|d| d.dec()).unwrap_or(p.peg_recovery_fee);
                        p.er_threshold = threshold.map(|d| d.dec()).unwrap_or(p.er_threshold).min(Decimal::one());
                        p.reward_denom = reward_denom.clone().unwrap_or(p.reward_denom.clone());
                        p.paused = *paused;
                    }
                    (
                        w.tx(sender, params_addr, &HubExec::UpdateParams { epoch_period: *epoch, unbonding_period: *unbonding, peg_recovery_fee: fee.map(|d| d.dec()), er_threshold: threshold.map(|d| d.dec()), paused: *paused, reward_denom: reward_denom.clone() }, &[]),
                        ok,
                    )
                }
                Msg::HubConfig { dispatcher, registry, bsei, stsei, airdrop, rewards, updater } => {
                    let all = [dispatcher, registry, bsei, stsei, airdrop, rewards, updater];
                    mixed = all.iter().any(|x| x.is_some()) && all.iter().any(|x| x.is_none());
                    // while paused every UpdateConfig is refused (C11)
                    let paused = !use_h2 && hub.params.paused.unwrap_or(false);
                    let addrs_ok = all.iter().all(|a| a.as_ref().map(|s| canon_ok(s)).unwrap_or(true));
                    let ok = st.by_owner && !paused && addrs_ok && bsei.is_none() && stsei.is_none();
                    if bsei.is_some() || stsei.is_some() {
                        out.label("token_address_change_attempted");
                    }
                    if ok {
                        if let Some(x) = dispatcher {
                            h2.dispatcher = Some(x.clone());
                        }
                        if let Some(x) = registry {
                            h2.registry = Some(x.clone());
                        }
                        if let Some(x) = airdrop {
                            h2.airdrop = Some(x.clone());
                        }
                        if let Some(x) = updater {
                            h2.updater = x.clone();
                        }
                    }
                    (
                        w.tx(sender, HUB, &HubExec::UpdateConfig { rewards_dispatcher_contract: dispatcher.clone(), validators_registry_contract: registry.clone(), bsei_token_contract: bsei.clone(), stsei_token_contract: stsei.clone(), airdrop_registry_contract: airdrop.clone(), rewards_contract: rewards.clone(), update_reward_index_addr: updater.clone() }, &[]),
                        ok,
                    )
                }
                Msg::DispConfig { hub: h, reward, st_denom, b_denom, keeper, rate } => {
                    let present = [h.is_some(), reward.is_some(), st_denom.is_some(), b_denom.is_some(), keeper.is_some(), rate.is_some()];
                    mixed = present.iter().any(|x| *x) && present.iter().any(|x| !*x);
                    let addrs_ok = [h, reward, keeper].iter().all(|a| a.as_ref().map(|s| canon_ok(s)).unwrap_or(true));
                    let ok = st.by_owner && addrs_ok && st_denom.is_none() && rate.map(|r| r.atomics() <= ONE).unwrap_or(true);
                    if rate.map(|r| r.atomics() > ONE).unwrap_or(false) {
                        out.label("out_of_range_value");
                    }
                    if !ok && st.by_owner && present.iter().filter(|x| **x).count() >= 2 {
                        out.label("rejected_multi_field_update");
                    }
                    if ok {
                        if let Some(x) = h {
                            d2.hub_contract = x.clone();
                        }
                        if let Some(x) = reward {
                            d2.bsei_reward_contract = x.clone();
                        }
                        if let Some(x) = b_denom {
                            d2.bsei_reward_denom = x.clone();
                        }
                        if let Some(x) = keeper {
                            d2.krp_keeper_address = x.clone();
                        }
                        if let Some(x) = rate {
                            d2.krp_keeper_rate = x.dec();
                        }
                    }
                    (
                        w.tx(sender, disp_addr, &DExec::UpdateConfig { hub_contract: h.clone(), bsei_reward_contract: reward.clone(), stsei_reward_denom: st_denom.clone(), bsei_reward_denom: b_denom.clone(), krp_keeper_address: keeper.clone(), krp_keeper_rate: rate.map(|d| d.dec()) }, &[]),
                        ok,
                    )
                }
                Msg::DispSwapDenom { denom, add } => {
                    if st.by_owner {
                        if *add {
                            d2.swap_denoms.push(denom.clone());
                        } else {
                            d2.swap_denoms.retain(|x| x != denom);
                        }
                    }
                    (w.tx(sender, disp_addr, &DExec::UpdateSwapDenom { swap_denom: denom.clone(), is_add: *add }, &[]), st.by_owner)
                }
                Msg::DispSwapContract { addr } => {
                    let ok = st.by_owner && canon_ok(addr);
                    if ok {
                        d2.swap_contract = addr.clone();
                    }
                    (w.tx(sender, disp_addr, &DExec::UpdateSwapContract { swap_contract: addr.clone() }, &[]), ok)
                }
                Msg::DispOracle { addr } => {
                    let ok = st.by_owner && canon_ok(addr);
                    if ok {
                        d2.oracle_contract = addr.clone();
                    }
                    (w.tx(sender, disp_addr, &DExec::UpdateOracleContract { oracle_contract: addr.clone() }, &[]), ok)
                }
                Msg::RewardConfig { hub: h, reward_denom, swap } => {
                    let present = [h.is_some(), reward_denom.is_some(), swap.is_some()];
                    mixed = present.iter().any(|x| *x) && present.iter().any(|x| !*x);
                    let addrs_ok = [h, swap].iter().all(|a| a.as_ref().map(|s| valid_addr(s)).unwrap_or(true));
                    let ok = st.by_owner && addrs_ok;
                    if ok {
                        if let Some(x) = h {
                            r2.hub_contract = x.clone();
                        }
                        if let Some(x) = reward_denom {
                            r2.reward_denom = x.clone();
                        }
                        if let Some(x) = swap {
                            r2.swap_contract = x.clone();
                        }
                    }
                    (w.tx(sender, REWARD, &basset::reward::ExecuteMsg::UpdateConfig { hub_contract: h.clone(), reward_denom: reward_denom.clone(), swap_contract: swap.clone() }, &[]), ok)
                }
                Msg::RewardSwapDenom { denom, add } => {
                    (w.tx(sender, REWARD, &basset::reward::ExecuteMsg::UpdateSwapDenom { swap_denom: denom.clone(), is_add: *add }, &[]), st.by_owner)
                }
                Msg::RegConfig { hub: h } => {
                    let ok = st.by_owner && h.as_ref().map(|s| canon_ok(s)).unwrap_or(true);
                    if ok {
                        if let Some(x) = h {
                            g2 = x.clone();
                        }
                    }
                    (w.tx(sender, REG, &RegExec::UpdateConfig { hub_contract: h.clone() }, &[]), ok)
                }
            };
            if mixed {
                out.nontrivial = true;
                out.label("mixed_present_absent_fields");
            }
            match (&res, accept) {
                (Ok(_), false) => {
                    out.fail(v(&format!("accepted-invalid-update/{}", msg_name(&st.msg)), format!("step {}: {:?} from {} was accepted", i, st.msg, sender)));
                    return out;
                }
                (Err(e), true) => {
                    out.fail(v(&format!("rejected-valid-update/{}", msg_name(&st.msg)), format!("step {}: {:?} from the owner was rejected: {}", i, st.msg, e)));
                    return out;
                }
                (Err(_), false) => {
                    if !w.same_state(&before) {
                        out.fail(v(&format!("rejected-update-changed-state/{}", msg_name(&st.msg)), format!("step {}: {:?} was rejected but state changed", i, st.msg)));
                        return out;
                    }
                }
                (Ok(_), true) => {
                    hub = h2;
                    disp = d2;
                    rew = r2;
                    reg_hub = g2;
                }
            }
            // ---------------- queries equal the model
            let p: Parameters = w.query(params_addr, &HubQuery::Parameters {}).unwrap_or_else(|e| qfail("hub Parameters", e));
            if p != hub.params {
                out.fail(v("hub-parameters-differ-from-model", format!("after step {} ({:?}): Parameters {:?}, reference {:?}", i, st.msg, p, hub.params)));
                return out;
            }
            if p.peg_recovery_fee > Decimal::one() || p.er_threshold > Decimal::one() || p.underlying_coin_denom != hub_denom0 {
                out.fail(v("hub-parameter-out-of-range", format!("after step {}: {:?}", i, p)));
                return out;
            }
            let hc: basset::hub::ConfigResponse = w.query(HUB, &HubQuery::Config {}).unwrap_or_else(|e| qfail("hub Config", e));
            if hc.owner != hub.owner || hc.update_reward_index_addr != hub.updater || hc.reward_dispatcher_contract != hub.dispatcher || hc.validators_registry_contract != hub.registry || hc.bsei_token_contract != hub.bsei || hc.stsei_token_contract != hub.stsei || hc.airdrop_registry_contract != hub.airdrop {
                out.fail(v("hub-config-differs-from-model", format!("after step {} ({:?}): Config {:?}, reference {:?}", i, st.msg, hc, hub)));
                return out;
            }
            let dc: basset::dispatcher::ConfigResponse = w.query(disp_addr, &DQuery::Config {}).unwrap_or_else(|e| qfail("dispatcher Config", e));
            if dc != disp {
                out.fail(v("dispatcher-config-differs-from-model", format!("after step {} ({:?}): Config {:?}, reference {:?}", i, st.msg, dc, disp)));
                return out;
            }
            if dc.krp_keeper_rate > Decimal::one() || dc.stsei_reward_denom != st_denom0 {
                out.fail(v("dispatcher-parameter-out-of-range", format!("after step {}: {:?}", i, dc)));
                return out;
            }
            let rc: basset::reward::ConfigResponse = w.query(REWARD, &basset::reward::QueryMsg::Config {}).unwrap_or_else(|e| qfail("reward Config", e));
            if rc != rew {
                out.fail(v("reward-config-differs-from-model", format!("after step {} ({:?}): Config {:?}, reference {:?}", i, st.msg, rc, rew)));
                return out;
            }
            let gc: basset_sei_validators_registry::registry::Config = w.query(REG, &RegQuery::Config {}).unwrap_or_else(|e| qfail("registry Config", e));
            if gc.hub_contract != api.addr_canonicalize(&reg_hub).unwrap() || gc.owner != api.addr_canonicalize(OWNER).unwrap() {
                out.fail(v("registry-config-differs-from-model", format!("after step {} ({:?}): hub {:?}, reference {}", i, st.msg, gc.hub_contract, reg_hub)));
                return out;
            }
        }
        out
    }
}

fn msg_name(m: &Msg) -> &'static str {
    match m {
        Msg::HubParams { .. } => "hub_update_params",
        Msg::HubConfig { .. } => "hub_update_config",
        Msg::DispConfig { .. } => "dispatcher_update_config",
        Msg::DispSwapDenom { .. } => "dispatcher_update_swap_denom",
        Msg::DispSwapContract { .. } => "dispatcher_update_swap_contract",
        Msg::DispOracle { .. } => "dispatcher_update_oracle_contract",
        Msg::RewardConfig { .. } => "reward_update_config",
        Msg::RewardSwapDenom { .. } => "reward_update_swap_denom",
        Msg::RegConfig { .. } => "registry_update_config",
    }
}
