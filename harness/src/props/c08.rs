//! C08 — the unbonding time-lock holds and the batch lifecycle only moves forward.
use super::common::*;
use super::*;
use crate::util::*;
use std::collections::BTreeMap;

pub struct C08 {
    /// first observation of each batch as released: the snapshot must never change afterwards
    frozen: BTreeMap<u64, basset::hub::UnbondHistoryResponse>,
    boundary_tx: bool,
}

const ID: &str = "C08";

pub fn prop() -> HistProp {
    HistProp {
        id: ID,
        rule: "generated histories over epoch / unbonding period configurations (including 1 s) whose clock moves are boundary-relative (-1/0/+1 s around the epoch boundary and around the unbonding boundary of the oldest unreleased batch); temporal predicates over the executed-message trace and AllHistory snapshots; non-trivial = a transaction executed exactly on a boundary second; class: >= 3 batches; distinct by hash of the case",
        profile: |t| {
            let mut p = Profile::base();
            p.unbond = 20;
            p.withdraw = 14;
            p.advance = 22;
            p.bond = 8;
            p.convert = 2;
            p.slash = 2;
            p.params = 2;
            p.registry = 1;
            p.prefix_bonds = 2..5;
            long(p, t)
        },
        cfgs: cfg_strategy,
        quick: 5000,
        thorough: 40000,
        mk: |_, _, _| Box::new(C08 { frozen: BTreeMap::new(), boundary_tx: false }),
        extra: None,
        many_batches: 2,
        zero_arrival: 1,
    }
}

fn v(sig: &str, detail: String) -> Violation {
    Violation::new(ID, format!("{}/{}", ID, sig), detail)
}

impl Checker for C08 {
    fn step(&mut self, cx: &StepCx, out: &mut CaseResult) {
        let (o0, o1, step) = (cx.o0, cx.o1, cx.step);
        let now = o1.time;
        let unb = o0.params.unbonding_period;
        let is_tx = !step.rop.is_env();
        // classification: transaction exactly on a boundary second
        if is_tx {
            if now == o0.state.last_unbonded_time + o0.params.epoch_period || now == o0.state.last_unbonded_time + o0.params.epoch_period + 1 {
                if matches!(step.rop, ROp::Hook { convert: false, .. }) {
                    self.boundary_tx = true;
                    out.label("unbond_on_epoch_boundary_second");
                }
            }
            if matches!(step.rop, ROp::Withdraw { .. }) && o0.history.iter().any(|h| !h.released && (h.time + unb == now || h.time + unb == now + 1)) {
                self.boundary_tx = true;
                out.label("withdraw_on_unbonding_boundary_second");
            }
        }
        // ---- history shape: ids 1..n, appended only, current batch = n + 1
        for (i, h) in o1.history.iter().enumerate() {
            if h.batch_id != i as u64 + 1 {
                out.fail(v("batch-ids-not-consecutive", format!("after {}: history ids {:?}", step.desc(), o1.history.iter().map(|h| h.batch_id).collect::<Vec<_>>())));
                return;
            }
        }
        if o1.batch.id != o1.history.len() as u64 + 1 {
            out.fail(v("current-batch-id", format!("after {}: current batch {} with {} history entries", step.desc(), o1.batch.id, o1.history.len())));
            return;
        }
        if o1.history.len() < o0.history.len() {
            out.fail(v("history-shrank", format!("after {}: {} -> {} entries", step.desc(), o0.history.len(), o1.history.len())));
            return;
        }
        if o1.history.len() >= 3 {
            out.label("three_or_more_batches");
        }
        // ---- monotone counters
        if o1.state.last_processed_batch < o0.state.last_processed_batch || o1.state.last_unbonded_time < o0.state.last_unbonded_time {
            out.fail(v("counters-moved-backwards", format!("after {}: last_processed_batch {} -> {}, last_unbonded_time {} -> {}", step.desc(), o0.state.last_processed_batch, o1.state.last_processed_batch, o0.state.last_unbonded_time, o1.state.last_unbonded_time)));
            return;
        }
        // ---- existing entries: immutable except release (withdraw rates + flag), released entries frozen
        for h0 in &o0.history {
            let h1 = match o1.hist(h0.batch_id) {
                Some(h) => h,
                None => {
                    out.fail(v("history-entry-lost", format!("after {}: batch {} disappeared", step.desc(), h0.batch_id)));
                    return;
                }
            };
            if h0.released {
                if h1 != h0 {
                    out.fail(v("released-entry-changed", format!("after {}: released batch {} changed from {:?} to {:?}", step.desc(), h0.batch_id, h0, h1)));
                    return;
                }
            } else if h1.time != h0.time
                || h1.bsei_amount != h0.bsei_amount
                || h1.stsei_amount != h0.stsei_amount
                || h1.bsei_applied_exchange_rate != h0.bsei_applied_exchange_rate
                || h1.stsei_applied_exchange_rate != h0.stsei_applied_exchange_rate
            {
                out.fail(v("unreleased-entry-rewritten", format!("after {}: batch {} changed from {:?} to {:?}", step.desc(), h0.batch_id, h0, h1)));
                return;
            } else if !h1.released && (h1.bsei_withdraw_rate != h0.bsei_withdraw_rate || h1.stsei_withdraw_rate != h0.stsei_withdraw_rate) {
                out.fail(v("withdraw-rate-changed-without-release", format!("after {}: batch {} {:?} -> {:?}", step.desc(), h0.batch_id, h0, h1)));
                return;
            }
        }
        for h in &o1.history {
            if h.released {
                match self.frozen.get(&h.batch_id) {
                    Some(f) if f != h => {
                        out.fail(v("released-entry-changed", format!("after {}: released batch {} was {:?}, now {:?}", step.desc(), h.batch_id, f, h)));
                        return;
                    }
                    Some(_) => {}
                    None => {
                        // ---- time lock: a batch may flip to released only once the unbonding period has fully elapsed
                        if now < h.time + unb {
                            out.fail(v("released-early", format!("{}: batch {} undelegated at {} released at {} (< {} + {})", step.desc(), h.batch_id, h.time, now, h.time, unb)));
                            return;
                        }
                        if !matches!(step.rop, ROp::Withdraw { .. }) || !step.ok() {
                            out.fail(v("released-outside-withdraw", format!("{}: batch {} became released", step.desc(), h.batch_id)));
                            return;
                        }
                        self.frozen.insert(h.batch_id, h.clone());
                    }
                }
            }
        }
        // ---- coins leave the hub towards a user only for batches whose period has elapsed
        if is_tx && step.ok() {
            for e in step.evs() {
                if let crate::chain::Ev::Bank { from, to, coins } = e {
                    if from == HUB && coins.iter().any(|c| c.denom == USEI) {
                        // only WithdrawUnbonded pays users
                        let u = match &step.rop {
                            ROp::Withdraw { user } if user == to => user,
                            _ => {
                                out.fail(v("hub-paid-outside-withdraw", format!("{}: the hub sent {:?} to {}", step.desc(), coins, to)));
                                return;
                            }
                        };
                        let left: Vec<u64> = o1.reqs(u).iter().map(|r| r.0).collect();
                        for (b, _, _) in o0.reqs(u) {
                            if !left.contains(b) {
                                let h = o1.hist(*b);
                                let t = h.map(|h| h.time).unwrap_or(u64::MAX);
                                if h.is_none() || now < t.saturating_add(unb) {
                                    out.fail(v("paid-before-unbonding-elapsed", format!("{}: batch {} (undelegated at {}) paid at {}, unbonding period {}", step.desc(), b, t, now, unb)));
                                    return;
                                }
                            }
                        }
                    }
                }
            }
        }
        // ---- undelegation: only in an unbond, strictly after the epoch period, one batch per tx, exact amount
        let und = sum_undelegate(step.evs(), HUB);
        let new_entries = o1.history.len() - o0.history.len();
        if new_entries > 1 {
            out.fail(v("two-batches-in-one-tx", format!("{}: {} new history entries", step.desc(), new_entries)));
            return;
        }
        if und > 0 && new_entries == 0 {
            out.fail(v("undelegation-without-history", format!("{}: undelegated {} without closing a batch", step.desc(), und)));
            return;
        }
        if new_entries == 1 {
            let h = o1.history.last().unwrap();
            let is_unbond = matches!(step.rop, ROp::Hook { convert: false, .. }) && step.ok();
            let passed = now - o0.state.last_unbonded_time;
            if !is_unbond || passed <= o0.params.epoch_period {
                out.fail(v(
                    "undelegated-too-early",
                    format!("{}: batch {} closed at {} only {} s after the previous undelegation (epoch period {})", step.desc(), h.batch_id, now, passed, o0.params.epoch_period),
                ));
                return;
            }
            if h.batch_id != o0.batch.id || h.time != now || h.released || o1.state.last_unbonded_time != now {
                out.fail(v("new-history-entry-malformed", format!("{}: {:?} (open batch was {}, now {})", step.desc(), h, o0.batch.id, now)));
                return;
            }
            let (cb, cs) = batch_coins(h);
            if und != cb + cs {
                out.fail(v("undelegated-amount", format!("{}: undelegated {} but the entry values its requests at {} + {}", step.desc(), und, cb, cs)));
                return;
            }
            let _ = mul_floor;
        } else if matches!(step.rop, ROp::Hook { convert: false, .. }) && step.ok() {
            // conversely the first unbond after the epoch period must close the batch
            let passed = now - o0.state.last_unbonded_time;
            if passed > o0.params.epoch_period {
                out.fail(v("undelegation-skipped", format!("{}: {} s since the previous undelegation (> epoch period {}) but the batch was not closed", step.desc(), passed, o0.params.epoch_period)));
                return;
            }
        }
    }
    fn finish(&mut self, _cfg: &Cfg, _w: &World, _o: &Obs, out: &mut CaseResult) {
        out.nontrivial = self.boundary_tx;
    }
}
