//! C11 — pause blocks every state-changing path except the owner's unpause; a pause cycle is transparent.
use super::c10::{SENDERS, STATE_KINDS};
use crate::chain::*;
use crate::deploy::*;
use crate::obs::*;
use crate::ops::*;
use crate::runner::*;
use basset::hub::{ExecuteMsg as HubExec, QueryMsg as HubQuery};
use cosmwasm_std::{to_json_binary, to_json_vec, Binary, Coin, Decimal, Uint128};
use cosmwasm_storage::Bucket;
use cw20::{Cw20ExecuteMsg, Cw20ReceiveMsg};
use proptest::prelude::*;
use serde::{Deserialize, Serialize};

const ID: &str = "C11";

pub const HUB_VARIANTS: [&str; 17] = [
    "update_config", "update_params_by_non_owner", "set_owner", "accept_ownership", "bond", "bond_for_st_sei", "bond_rewards", "update_global_index",
    "withdraw_unbonded", "check_slashing", "receive_unbond", "receive_convert", "claim_airdrop", "swap_hook", "redelegate_proxy",
    "unbond_through_token", "convert_through_token",
];

#[derive(Clone, Debug, Serialize, Deserialize)]
pub enum Case {
    /// one hub message from one sender class while paused, in a state of the given kind
    Blocked { state: u8, variant: u8, sender: u8, payload: u32 },
    /// legacy wait-list entries (user, batch, amount) present while paused; migration with the given limits
    Legacy { entries: Vec<(u8, u8, Uint128)>, limits: Vec<Option<u8>> },
    /// many legacy entries (n distinct (user, batch) pairs; the default migration page is 1000 entries)
    LegacyBulk { n: u16, limits: Vec<Option<u16>> },
    /// history H vs H with a pause / blocked attempts / unpause cycle inserted before op `at`
    Meta { history: History, at: u8, attempts: Vec<(u8, u8)> },
}

fn v(sig: &str, detail: String) -> Violation {
    Violation::new(ID, format!("{}/{}", ID, sig), detail)
}

fn pause_msg(on: Option<bool>) -> HubExec {
    HubExec::UpdateParams { epoch_period: None, unbonding_period: None, peg_recovery_fee: None, er_threshold: None, paused: on, reward_denom: None }
}

/// (target contract, message, funds) of hub variant `vi`
fn message(vi: usize, p: u32, sender: &str) -> (String, Binary, Vec<Coin>) {
    let amt = Uint128::new(1 + (p as u128 % 5000));
    let hub = |m: HubExec, f: Vec<Coin>| (HUB.to_string(), to_json_binary(&m).unwrap(), f);
    match HUB_VARIANTS[vi] {
        "update_config" => hub(HubExec::UpdateConfig { rewards_dispatcher_contract: None, validators_registry_contract: None, bsei_token_contract: None, stsei_token_contract: None, airdrop_registry_contract: Some("alice".into()), rewards_contract: None, update_reward_index_addr: if p % 2 == 0 { Some("bobby".into()) } else { None } }, vec![]),
        "update_params_by_non_owner" => hub(HubExec::UpdateParams { epoch_period: Some(7), unbonding_period: None, peg_recovery_fee: None, er_threshold: None, paused: Some(p % 2 == 0), reward_denom: None }, vec![]),
        "set_owner" => hub(HubExec::SetOwner { new_owner_addr: if p % 2 == 0 { sender.to_string() } else { "alice".into() } }, vec![]),
        "accept_ownership" => hub(HubExec::AcceptOwnership {}, vec![]),
        "bond" => hub(HubExec::Bond {}, vec![Coin::new(amt.u128(), USEI)]),
        "bond_for_st_sei" => hub(HubExec::BondForStSei {}, vec![Coin::new(amt.u128(), USEI)]),
        "bond_rewards" => hub(HubExec::BondRewards {}, vec![Coin::new(amt.u128(), USEI)]),
        "update_global_index" => hub(HubExec::UpdateGlobalIndex { airdrop_hooks: None }, vec![]),
        "withdraw_unbonded" => hub(HubExec::WithdrawUnbonded {}, vec![]),
        "check_slashing" => hub(HubExec::CheckSlashing {}, vec![]),
        "receive_unbond" => hub(HubExec::Receive(Cw20ReceiveMsg { sender: "user0".into(), amount: amt, msg: hook_msg(false) }), vec![]),
        "receive_convert" => hub(HubExec::Receive(Cw20ReceiveMsg { sender: "user0".into(), amount: amt, msg: hook_msg(true) }), vec![]),
        "claim_airdrop" => hub(HubExec::ClaimAirdrop { airdrop_token_contract: STSEI.into(), airdrop_contract: SINK.into(), airdrop_swap_contract: SINK.into(), claim_msg: to_json_binary(&"c").unwrap(), swap_msg: to_json_binary(&"s").unwrap() }, vec![]),
        "swap_hook" => hub(HubExec::SwapHook { airdrop_token_contract: STSEI.into(), airdrop_swap_contract: SINK.into(), swap_msg: to_json_binary(&"s").unwrap() }, vec![]),
        "redelegate_proxy" => hub(HubExec::RedelegateProxy { src_validator: val(0), redelegations: vec![(val(1), Coin::new(1u128, USEI))] }, vec![]),
        "unbond_through_token" => (if p % 2 == 0 { BSEI } else { STSEI }.to_string(), to_json_binary(&Cw20ExecuteMsg::Send { contract: HUB.into(), amount: Uint128::new(1 + p as u128 % 7), msg: hook_msg(false) }).unwrap(), vec![]),
        _ => (if p % 2 == 0 { BSEI } else { STSEI }.to_string(), to_json_binary(&Cw20ExecuteMsg::Send { contract: HUB.into(), amount: Uint128::new(1 + p as u128 % 7), msg: hook_msg(true) }).unwrap(), vec![]),
    }
}

/// queries that must keep answering, and answer as before the pause (Parameters.paused excepted)
fn query_fingerprint(w: &World, cfg: &Cfg) -> Result<String, String> {
    let mut s = String::new();
    let st: basset::hub::StateResponse = w.query(HUB, &HubQuery::State {})?;
    s += &format!("{:?}", st);
    let b: basset::hub::CurrentBatchResponse = w.query(HUB, &HubQuery::CurrentBatch {})?;
    s += &format!("{:?}", b);
    let c: basset::hub::ConfigResponse = w.query(HUB, &HubQuery::Config {})?;
    s += &format!("{:?}", c);
    let mut p: basset::hub::Parameters = w.query(HUB, &HubQuery::Parameters {})?;
    p.paused = None;
    s += &format!("{:?}", p);
    let h: basset::hub::AllHistoryResponse = w.query(HUB, &HubQuery::AllHistory { start_from: None, limit: Some(100) })?;
    s += &format!("{:?}", h);
    let n: basset::hub::NewOwnerResponse = w.query(HUB, &HubQuery::NewOwner {})?;
    s += &format!("{:?}", n);
    for a in principals(cfg) {
        let r: basset::hub::UnbondRequestsResponse = w.query(HUB, &HubQuery::UnbondRequests { address: a.clone() })?;
        let wd: basset::hub::WithdrawableUnbondedResponse = w.query(HUB, &HubQuery::WithdrawableUnbonded { address: a })?;
        s += &format!("{:?}{:?}", r, wd);
    }
    Ok(s)
}

pub struct C11;

fn blocked_check(out: &mut CaseResult, state: u8, variant: u8, sender: u8, payload: u32) {
    let (vi, si) = (variant as usize % HUB_VARIANTS.len(), sender as usize % SENDERS.len());
    let kind = state % 4; // the four state kinds in which the hub is fully configured
    let mut s = super::c10::setup(kind, payload);
    let cfg = Cfg::default();
    // in the evolved kinds leave a batch in flight
    if kind == 1 {
        let _ = s.w.tx("user1", STSEI, &Cw20ExecuteMsg::Send { contract: HUB.into(), amount: Uint128::new(500), msg: hook_msg(false) }, &[]);
    }
    let from = match SENDERS[si] {
        "owner_now" => s.owner_now.clone(),
        "nominee_now" => s.nominee_now.clone(),
        "ex_owner" => s.ex_owner.clone(),
        "hub" | "self" => HUB.into(),
        "bsei" => BSEI.into(),
        "stsei" => STSEI.into(),
        "reward" => REWARD.into(),
        "dispatcher" => DISP.into(),
        "registry" => REG.into(),
        "swap" => SWAP.into(),
        "oracle" => ORACLE.into(),
        "airdrop" => AIRDROP.into(),
        "updater" => UPDATER.into(),
        "keeper" => KEEPER.into(),
        _ => "user0".into(),
    };
    // token-mediated attempts need a holder: the sender gets tokens before the pause
    {
        let (target, _, _) = message(vi, payload, &from);
        if target != HUB {
            let _ = s.w.tx(HUB, &target, &Cw20ExecuteMsg::Mint { recipient: from.clone(), amount: Uint128::new(100) }, &[]);
        }
    }
    let before_pause = match query_fingerprint(&s.w, &cfg) {
        Ok(f) => f,
        Err(e) => {
            out.fail(v("query-fails-before-pause", e));
            return;
        }
    };
    let owner = s.owner_now.clone();
    if let Err(e) = s.w.tx(&owner, HUB, &pause_msg(Some(true)), &[]) {
        out.fail(v("owner-cannot-pause", format!("state '{}': {}", STATE_KINDS[kind as usize], e)));
        return;
    }
    // queries keep working and answer as before
    match query_fingerprint(&s.w, &cfg) {
        Ok(f) if f == before_pause => {}
        Ok(f) => {
            out.fail(v("queries-changed-by-pause", format!("state '{}': before {} after {}", STATE_KINDS[kind as usize], before_pause, f)));
            return;
        }
        Err(e) => {
            out.fail(v("query-fails-while-paused", format!("state '{}': {}", STATE_KINDS[kind as usize], e)));
            return;
        }
    }
    // the owner's UpdateParams is the one admitted exception
    if HUB_VARIANTS[vi] == "update_params_by_non_owner" && from == s.owner_now {
        out.label("owner_update_params_skipped");
        return;
    }
    let (target, msg, funds) = message(vi, payload, &from);
    for f in &funds {
        s.w.mint(&from, &f.denom, f.amount.u128());
    }
    let before = s.w.clone();
    let res = s.w.tx_raw(&from, &target, msg.clone(), &funds);
    out.nontrivial = true;
    out.label("blocked_attempt");
    if res.is_ok() || !s.w.same_state(&before) {
        out.fail(v(
            &format!("paused-hub-accepted/{}/{}", HUB_VARIANTS[vi], SENDERS[si]),
            format!("state '{}': while paused, {} sent by {} ({}) was {}: {}", STATE_KINDS[kind as usize], HUB_VARIANTS[vi], from, SENDERS[si], if res.is_ok() { "accepted" } else { "rejected but changed state" }, String::from_utf8_lossy(msg.as_slice())),
        ));
        return;
    }
    // with no legacy wait-list entries there is nothing to migrate: a migration call (from anybody) may be accepted
    // but must change nothing — in particular it must not lift the pause
    for lim in [None, Some(0u32), Some(3u32)] {
        let before = s.w.clone();
        let _ = s.w.tx(&from, HUB, &HubExec::MigrateUnbondWaitList { limit: lim }, &[]);
        if !s.w.same_state(&before) {
            let paused = hub_params(&s.w).paused;
            out.fail(v(
                &format!("empty-migration-changed-state/{}", SENDERS[si]),
                format!("state '{}': MigrateUnbondWaitList {{ limit: {:?} }} by {} with no legacy entries changed state (paused is now {:?})", STATE_KINDS[kind as usize], lim, from, paused),
            ));
            return;
        }
    }
    // unpausing restores the pre-pause answers
    if let Err(e) = s.w.tx(&owner, HUB, &pause_msg(Some(false)), &[]) {
        out.fail(v("owner-cannot-unpause", format!("state '{}': {}", STATE_KINDS[kind as usize], e)));
        return;
    }
    match query_fingerprint(&s.w, &cfg) {
        Ok(f) if f == before_pause => {}
        other => out.fail(v("queries-changed-by-pause-cycle", format!("state '{}': before {} after {:?}", STATE_KINDS[kind as usize], before_pause, other))),
    }
}

fn legacy_check(out: &mut CaseResult, entries: &[(u8, u8, Uint128)], limits: &[Option<u8>]) {
    let mut legacy: std::collections::BTreeMap<(String, u64), u128> = Default::default();
    // de-duplicate (user, batch): the old layout holds one amount per pair
    for (u, b, a) in entries {
        legacy.insert((user(*u % 4), 1 + *b as u64 % 12), a.u128());
    }
    // half of the cases: one legacy row shares its (user, batch) slot with a claim already recorded in the new layout
    // (legacy_run lets user0 unbond into batch 1 before the pause)
    if let Some((_, _, a)) = entries.first() {
        if a.u128() % 2 == 0 {
            legacy.insert((user(0), 1), a.u128());
            out.label("legacy_row_collides_with_new_layout_claim");
        }
    }
    let lims: Vec<Option<u32>> = limits.iter().map(|l| l.map(|x| x as u32)).collect();
    legacy_run(out, legacy, lims)
}

fn legacy_bulk_check(out: &mut CaseResult, n: u16, limits: &[Option<u16>]) {
    let mut legacy: std::collections::BTreeMap<(String, u64), u128> = Default::default();
    for i in 0..n as u64 {
        legacy.insert((format!("legacy{}", i % 7), 1 + i / 7), 1000 + i as u128);
    }
    out.label("bulk_legacy_entries");
    if n > 1000 {
        out.label("more_legacy_entries_than_one_default_page");
    }
    legacy_run(out, legacy, limits.iter().map(|l| l.map(|x| x as u32)).collect())
}

fn legacy_run(out: &mut CaseResult, legacy: std::collections::BTreeMap<(String, u64), u128>, limits: Vec<Option<u32>>) {
    let cfg = Cfg::default();
    let mut w = deploy(&cfg);
    w.mint("user0", USEI, 1_000_000);
    let _ = w.tx("user0", HUB, &HubExec::Bond {}, &[Coin::new(1_000_000u128, USEI)]);
    // migration is refused while the hub is not paused
    if w.tx("user1", HUB, &HubExec::MigrateUnbondWaitList { limit: None }, &[]).is_ok() {
        out.fail(v("migration-while-unpaused", "MigrateUnbondWaitList was accepted while the hub is not paused".into()));
        return;
    }
    // a claim in the new layout: (user0, batch 1)
    let v2_amount = if legacy.get(&(user(0), 1)) == Some(&1001) { 1002u128 } else { 1001u128 };
    let _ = w.tx("user0", BSEI, &Cw20ExecuteMsg::Send { contract: HUB.into(), amount: Uint128::new(v2_amount), msg: to_json_binary(&basset::hub::Cw20HookMsg::Unbond {}).unwrap() }, &[]);
    w.tx(OWNER, HUB, &pause_msg(Some(true)), &[]).expect("pause");
    {
        let store = &mut w.contracts.get_mut(HUB).unwrap().1;
        for ((u, b), a) in &legacy {
            let addr = to_json_vec(u).unwrap();
            let mut bk: Bucket<Uint128> = Bucket::multilevel(store, &[b"wait", &addr]);
            bk.save(&to_json_vec(b).unwrap(), &Uint128::new(*a)).unwrap();
        }
    }
    let k = legacy.len();
    out.work = 1 + limits.len() as u64;
    if k > 0 {
        out.nontrivial = true;
        out.label("legacy_entries_present");
        for p in [Some(false), None] {
            let before = w.clone();
            let r = w.tx(OWNER, HUB, &pause_msg(p), &[]);
            if r.is_ok() || !w.same_state(&before) {
                out.fail(v(
                    &format!("unpaused-with-legacy-entries/{}", if p.is_some() { "paused_false" } else { "paused_omitted" }),
                    format!("UpdateParams {{ paused: {:?} }} was accepted with {} legacy wait-list entries left", p, k),
                ));
                return;
            }
        }
    }
    // migrate with the generated limits, then without limit
    let mut lims: Vec<Option<u32>> = limits.clone();
    lims.push(None);
    lims.push(None);
    lims.push(None);
    for lim in lims {
        let params = hub_params(&w);
        if !params.paused.unwrap_or(false) {
            break;
        }
        let r = w.tx("user3", HUB, &HubExec::MigrateUnbondWaitList { limit: lim }, &[]);
        if let Err(e) = r {
            out.fail(v("migration-fails", format!("MigrateUnbondWaitList {{ limit: {:?} }} fails while paused: {}", lim, e)));
            return;
        }
        // how many legacy entries remain?
        let remaining = {
            let store = &w.contracts.get(HUB).unwrap().1;
            legacy.keys().filter(|(u, b)| {
                let addr = to_json_vec(u).unwrap();
                let bk: cosmwasm_storage::ReadonlyBucket<Uint128> = cosmwasm_storage::ReadonlyBucket::multilevel(store, &[b"wait", &addr]);
                bk.may_load(&to_json_vec(b).unwrap()).ok().flatten().is_some()
            }).count()
        };
        let paused = hub_params(&w).paused.unwrap_or(false);
        if !paused && remaining > 0 {
            out.fail(v("unpaused-with-legacy-entries/migration", format!("the hub unpaused itself with {} legacy entries left", remaining)));
            return;
        }
        // nothing is lost: migrated + remaining = all
        let mut shown = 0usize;
        for ((u, b), a) in &legacy {
            let reqs = hub_requests(&w, u);
            if reqs.iter().any(|r| r.0 == *b && r.1 == *a && r.2 == 0) {
                shown += 1;
            }
        }
        if shown + remaining != k {
            out.fail(v("legacy-entries-lost", format!("{} legacy entries: {} visible in UnbondRequests, {} still in the old layout", k, shown, remaining)));
            return;
        }
    }
    if hub_params(&w).paused.unwrap_or(false) {
        // no legacy entries left: the owner can unpause now
        if let Err(e) = w.tx(OWNER, HUB, &pause_msg(Some(false)), &[]) {
            out.fail(v("owner-cannot-unpause", format!("after full migration: {}", e)));
        }
    }
}

fn run_meta(h: &History, insert_at: Option<(usize, &[(u8, u8)])>) -> (Vec<String>, Obs, World) {
    let cfg = &h.cfg;
    let mut w = deploy(cfg);
    w.lenient_zero_send = true;
    let mut it = Interp::new(cfg);
    let mut results = vec![];
    for (i, op) in h.ops.iter().enumerate() {
        if let Some((at, attempts)) = insert_at {
            if at == i {
                // pause, blocked attempts, unpause: no clock movement
                let was_paused = hub_params(&w).paused.unwrap_or(false);
                if !was_paused {
                    let _ = w.tx(OWNER, HUB, &pause_msg(Some(true)), &[]);
                    for (vi, si) in attempts {
                        let from = ["user0", "user1", KEEPER, UPDATER, DISP, REG][*si as usize % 6];
                        let (target, msg, funds) = message(*vi as usize % HUB_VARIANTS.len(), *vi as u32 * 31 + *si as u32, from);
                        for f in &funds {
                            w.mint(from, &f.denom, f.amount.u128());
                        }
                        let r = w.tx_raw(from, &target, msg, &funds);
                        if r.is_err() {
                            for f in &funds {
                                w.burn_coins(from, &f.denom, f.amount.u128());
                            }
                        }
                    }
                    let _ = w.tx(OWNER, HUB, &pause_msg(Some(false)), &[]);
                    w.trace.clear();
                }
            }
        }
        let n = it.resolve(&w, op).len();
        for k in 0..n {
            let rops = it.resolve(&w, op);
            let rop = match rops.get(k) {
                Some(r) => r.clone(),
                None => break,
            };
            let step = it.exec(&mut w, &rop);
            if let Some(u) = &w.unsupported {
                crate::hist::infrastructure_abort(&format!("unsupported: {}", u));
            }
            w.trace.clear();
            if i >= insert_at.map(|x| x.0).unwrap_or(0) {
                results.push(format!("{:?} => {:?}", step.rop, step.res));
            }
        }
    }
    let o = observe(&w, cfg);
    (results, o, w)
}

impl Prop for C11 {
    type Case = Case;
    fn id(&self) -> &'static str {
        ID
    }
    fn rule(&self) -> String {
        format!(
            "enumeration of {} hub message variants (direct and token-mediated) x {} sender classes x 4 state kinds x 2 payloads while paused; generated legacy wait-list contents (old storage layout) with generated migration limits; generated metamorphic pairs: history H vs H with a pause / blocked attempts / unpause cycle inserted at a random point without clock movement; non-trivial = a blocked attempt, a legacy case with entries, or a metamorphic pair whose insertion point has an in-flight batch; distinct by case hash",
            HUB_VARIANTS.len(),
            SENDERS.len()
        )
    }
    fn assumptions(&self) -> Vec<String> {
        vec![
            "legacy wait-list entries are written in the previous contract version's storage layout (Bucket 'wait' / address / batch -> Uint128); no new-layout entry exists for the same (address, batch)".into(),
            "sender space sampled by class".into(),
        ]
    }
    fn strategy(&self, _tier: Tier) -> BoxedStrategy<Case> {
        let mut p = Profile::base();
        p.pause = 0;
        p.params = 0; // UpdateParams re-sends `paused`, keep the histories free of pause manipulation
        p.len = 4..30;
        p.unbond = 16;
        p.advance = 10;
        prop_oneof![
            2 => (0u8..4, 0u8..HUB_VARIANTS.len() as u8, 0u8..SENDERS.len() as u8, any::<u32>()).prop_map(|(state, variant, sender, payload)| Case::Blocked { state, variant, sender, payload }),
            2 => (proptest::collection::vec((0u8..4, 0u8..12, (1u128..1_000_000_000u128).prop_map(Uint128::new)), 0..9), proptest::collection::vec(proptest::option::of(0u8..5), 0..4))
                .prop_map(|(entries, limits)| Case::Legacy { entries, limits }),
            1 => (prop_oneof![3 => 0u16..60, 1 => 990u16..1010, 1 => 1001u16..2100], proptest::collection::vec(proptest::option::of(prop_oneof![2 => 0u16..5, 3 => 900u16..1100, 1 => 1100u16..6000, 1 => Just(u16::MAX)]), 0..3))
                .prop_map(|(n, limits)| Case::LegacyBulk { n, limits }),
            5 => (history_strategy(&p, cfg_strategy()), any::<u8>(), proptest::collection::vec((0u8..HUB_VARIANTS.len() as u8, 0u8..6), 0..5))
                .prop_map(|(history, at, attempts)| Case::Meta { history, at, attempts }),
        ]
        .boxed()
    }
    fn cases(&self, tier: Tier) -> u32 {
        match tier {
            Tier::Quick => 4000,
            Tier::Thorough => 30000,
        }
    }
    fn fixed_cases(&self, tier: Tier) -> Vec<Case> {
        let mut v = vec![];
        let payloads = if tier == Tier::Thorough { 8 } else { 2 };
        for state in 0..4u8 {
            for variant in 0..HUB_VARIANTS.len() as u8 {
                for sender in 0..SENDERS.len() as u8 {
                    for p in 0..payloads {
                        v.push(Case::Blocked { state, variant, sender, payload: p });
                    }
                }
            }
        }
        for n in [0u16, 1, 999, 1000, 1001, 1500, 2001] {
            v.push(Case::LegacyBulk { n, limits: vec![] });
            v.push(Case::LegacyBulk { n, limits: vec![Some(1000)] });
            v.push(Case::LegacyBulk { n, limits: vec![Some(5000)] });
        }
        v
    }
    fn check(&self, c: &Case, _lenient: bool) -> CaseResult {
        let mut out = CaseResult::default();
        out.work = 1;
        match c {
            Case::Blocked { state, variant, sender, payload } => blocked_check(&mut out, *state, *variant, *sender, *payload),
            Case::Legacy { entries, limits } => legacy_check(&mut out, entries, limits),
            Case::LegacyBulk { n, limits } => legacy_bulk_check(&mut out, *n, limits),
            Case::Meta { history, at, attempts } => {
                if history.ops.is_empty() {
                    return out;
                }
                let at_i = *at as usize % history.ops.len();
                out.work = 2 * history.ops.len() as u64;
                let (r_plain, o_plain, w_plain) = run_meta(history, None);
                let (r_cycle, o_cycle, w_cycle) = run_meta(history, Some((at_i, attempts.as_slice())));
                // results from the insertion point on: recompute the plain suffix
                let (r_plain_suffix, _, _) = run_meta_suffix(history, at_i);
                let _ = r_plain;
                if r_plain_suffix != r_cycle {
                    let k = r_plain_suffix.iter().zip(r_cycle.iter()).position(|(a, b)| a != b).unwrap_or(0);
                    out.fail(v(
                        "pause-cycle-not-transparent/results",
                        format!("inserting pause / {} blocked attempts / unpause before op {} changes a later result: without {:?}, with {:?}", attempts.len(), at_i, r_plain_suffix.get(k), r_cycle.get(k)),
                    ));
                    return out;
                }
                if o_plain != o_cycle || !w_plain.same_state(&w_cycle) {
                    out.fail(v(
                        "pause-cycle-not-transparent/state",
                        format!("inserting pause / {} blocked attempts / unpause before op {} changes the final state (observations equal: {})", attempts.len(), at_i, o_plain == o_cycle),
                    ));
                    return out;
                }
                out.label("metamorphic_pair");
                // in-flight batch at the insertion point?
                let (_, o_at, _) = run_meta(&History { cfg: history.cfg.clone(), ops: history.ops[..at_i].to_vec() }, None);
                if o_at.history.iter().any(|h| !h.released) || !o_at.batch.requested_bsei_with_fee.is_zero() || !o_at.batch.requested_stsei.is_zero() {
                    out.nontrivial = true;
                    out.label("pause_cycle_with_in_flight_batch");
                }
            }
        }
        let _ = Decimal::one();
        out
    }
}

fn run_meta_suffix(h: &History, at: usize) -> (Vec<String>, Obs, World) {
    // same as run_meta without insertion, but collecting results from op `at` on
    let cfg = &h.cfg;
    let mut w = deploy(cfg);
    w.lenient_zero_send = true;
    let mut it = Interp::new(cfg);
    let mut results = vec![];
    for (i, op) in h.ops.iter().enumerate() {
        let n = it.resolve(&w, op).len();
        for k in 0..n {
            let rops = it.resolve(&w, op);
            let rop = match rops.get(k) {
                Some(r) => r.clone(),
                None => break,
            };
            let step = it.exec(&mut w, &rop);
            w.trace.clear();
            if i >= at {
                results.push(format!("{:?} => {:?}", step.rop, step.res));
            }
        }
    }
    let o = observe(&w, cfg);
    (results, o, w)
}
