//! C06 — slashing is recognised exactly and shared pro-rata between the two pools.
use super::common::*;
use super::*;
use crate::util::*;
use basset::hub::ExecuteMsg as HubExec;

pub struct C06 {
    /// pool totals stored by the hub's last recognition (State right after the last pricing tx)
    rec: (u128, u128),
    /// the hub's liquid balance right after the last successful withdrawal: everything above it has arrived since
    /// (kept by the checker itself, not read back from the hub's `prev_hub_balance`)
    accounted: u128,
    nontrivial: bool,
}

const ID: &str = "C06";

pub fn prop() -> HistProp {
    HistProp {
        id: ID,
        rule: "generated histories with slashing fault sequences (any validator, 0.1%-50%, bonded and/or unbonding stake, several before one recognition) over pool ratios from one-sided to balanced; after every step the State view is compared with the exact pro-rata split of the surviving delegations; each release group is compared with the exact pro-rata share per (batch, token); non-trivial = a slash was recognised with both pools non-empty, or a release group of >= 2 batches lost unbonding stake; distinct by hash of the case",
        profile: |t| {
            let mut p = Profile::base();
            p.slash = 12;
            p.check_slashing = 5;
            p.unbond = 14;
            p.withdraw = 10;
            p.advance = 16;
            p.convert = 4;
            p.registry = 1;
            p.donate = 2;
            p.prefix_bonds = 2..5;
            long(p, t)
        },
        cfgs: cfg_strategy,
        quick: 4000,
        thorough: 30000,
        mk: |_, _, o| Box::new(C06 { rec: (o.state.total_bond_bsei_amount.u128(), o.state.total_bond_stsei_amount.u128()), accounted: o.bank_of(HUB, USEI), nontrivial: false }),
        extra: Some((4, |_| release_scenario_strategy(cfg_strategy()))),
        many_batches: 1,
        zero_arrival: 1,
    }
}

fn v(sig: &str, detail: String) -> Violation {
    Violation::new(ID, format!("{}/{}", ID, sig), detail)
}

impl C06 {
    /// the baseline against which arrivals (and therefore unbonding losses) are measured moves only at a withdrawal
    fn track_accounted(&mut self, cx: &StepCx, out: &mut CaseResult) -> bool {
        if cx.step.ok() && matches!(cx.step.rop, ROp::Withdraw { .. }) {
            self.accounted = cx.o1.bank_of(HUB, USEI);
        }
        if cx.o1.state.prev_hub_balance.u128() != self.accounted {
            out.fail(v(
                "accounted-balance-drift",
                format!(
                    "after {}: the hub records {} as already accounted for, but its balance right after the last successful withdrawal was {}: the next release will mis-measure what arrived (and so the unbonding loss) by the difference",
                    cx.step.desc(), cx.o1.state.prev_hub_balance, self.accounted
                ),
            ));
            return false;
        }
        true
    }
}

impl Checker for C06 {
    fn step(&mut self, cx: &StepCx, out: &mut CaseResult) {
        let (o0, o1, step) = (cx.o0, cx.o1, cx.step);
        let name = step.rop.name();
        let accounted_before = self.accounted;
        if !self.track_accounted(cx, out) {
            return;
        }
        // ---- recognition happens first: a pricing transaction books the synced view, then applies its own delta
        if step.ok() && !step.rop.is_env() && o0.delegated > 0 && o0.books() > 0 {
            let (vb0, vs0) = (o0.state.total_bond_bsei_amount.u128(), o0.state.total_bond_stsei_amount.u128());
            let (vb1, vs1) = (o1.state.total_bond_bsei_amount.u128(), o1.state.total_bond_stsei_amount.u128());
            let rebonded: u128 = execs_to(step.evs(), HUB)
                .iter()
                .filter(|(_, m, _)| m.starts_with("{\"bond_rewards\""))
                .map(|(_, _, f)| f.iter().filter(|c| c.denom == USEI).map(|c| c.amount.u128()).sum::<u128>())
                .sum();
            let expected: Option<(u128, u128)> = match &step.rop {
                ROp::Bond { st: false, amount, .. } => Some((vb0 + amount, vs0)),
                ROp::Bond { st: true, amount, .. } => Some((vb0, vs0 + amount)),
                ROp::CheckSlashing { .. } | ROp::BurnFrom { .. } => Some((vb0, vs0)),
                ROp::UpdateIndex { .. } | ROp::RemoveVal { .. } | ROp::Redelegations { .. } => Some((vb0, vs0 + rebonded)),
                ROp::Hook { convert: false, .. } if o1.history.len() == o0.history.len() => Some((vb0, vs0)),
                _ => None,
            };
            if let Some((eb, es)) = expected {
                if o1.delegated > 0 && (vb1, vs1) != (eb, es) {
                    out.fail(v(
                        &format!("recognition-then-delta/{}", name),
                        format!("{}: the synced view before was {} / {}, so the books after must be {} / {} (re-bonded {}), but are {} / {}", step.desc(), vb0, vs0, eb, es, rebonded, vb1, vs1),
                    ));
                    return;
                }
                if rebonded > 0 && self.rec != (vb0, vs0) {
                    self.nontrivial = true;
                    out.label("bond_rewards_with_pending_slash");
                }
            }
        }
        // ---- a successful pricing transaction stores the recognised totals
        if step.ok() && !step.rop.is_env() && has_hub_pricing_exec(step.evs()) {
            self.rec = (o1.state.total_bond_bsei_amount.u128(), o1.state.total_bond_stsei_amount.u128());
        }
        // ---- the reported totals are an exact function of the recognised totals and the chain delegations
        let (b0, s0) = self.rec;
        let tot0 = b0 + s0;
        let d = o1.delegated;
        let (b, s) = (o1.state.total_bond_bsei_amount.u128(), o1.state.total_bond_stsei_amount.u128());
        if d > 0 && tot0 > 0 {
            if d < tot0 {
                // slashed: total is exactly the surviving stake, split pro rata
                if b + s != d {
                    out.fail(v(
                        "recognised-total-not-exact",
                        format!("after {}: delegated {} < recognised books {} but reported total {} + {} = {}", step.desc(), d, tot0, b, s, b + s),
                    ));
                    return;
                }
                let share_b = muldiv(d, b0, tot0);
                let share_s = muldiv(d, s0, tot0);
                if absdiff(b, share_b) > 2 || absdiff(s, share_s) > 2 + 1 {
                    // (the stSei side is the remainder: its exact share is floor'ed once more, hence +1)
                    out.fail(v(
                        "pro-rata-split",
                        format!("after {}: pools {} / {} recognised, {} survives; reported {} / {} vs exact shares {} / {}", step.desc(), b0, s0, d, b, s, share_b, share_s),
                    ));
                    return;
                }
                if step.rop.is_slash() && b0 > 0 && s0 > 0 {
                    self.nontrivial = true;
                    out.label("slash_with_both_pools");
                }
                if step.rop.is_slash() && (b0 == 0 || s0 == 0) {
                    out.label("slash_with_one_pool_empty");
                }
            } else if (b, s) != (b0, s0) {
                out.fail(v(
                    &format!("totals-changed-without-slash/{}", name),
                    format!("after {}: delegated {} >= recognised books {} + {} but reported {} / {}", step.desc(), d, b0, s0, b, s),
                ));
                return;
            }
        }
        // ---- explicit recognition: CheckSlashing on a clone books the reported view and is idempotent
        if step.rop.is_slash() && d > 0 && tot0 > 0 && !o1.params.paused.unwrap_or(false) {
            let mut w1 = cx.post.clone();
            if let Err(e) = w1.tx(&user(0), HUB, &HubExec::CheckSlashing {}, &[]) {
                out.fail(v("check-slashing-failed", format!("after {}: CheckSlashing fails: {}", step.desc(), e)));
                return;
            }
            let st1 = crate::obs::hub_state(&w1);
            if (st1.total_bond_bsei_amount.u128(), st1.total_bond_stsei_amount.u128()) != (b, s) {
                out.fail(v(
                    "check-slashing-books-differ-from-view",
                    format!("after {}: State reports {} / {}, CheckSlashing books {} / {}", step.desc(), b, s, st1.total_bond_bsei_amount, st1.total_bond_stsei_amount),
                ));
                return;
            }
            let mut w2 = w1.clone();
            let _ = w2.tx(&user(0), HUB, &HubExec::CheckSlashing {}, &[]);
            if !w2.same_state(&w1) {
                out.fail(v("check-slashing-not-idempotent", format!("after {}: a second CheckSlashing changes state", step.desc())));
                return;
            }
            out.count("recognition_probes", 1);
        }
        // ---- batches are released (and their loss split) only by a successful withdrawal, whose payout re-bases the
        // accounted-for balance; a release anywhere else leaves its coins to be counted again
        if !(step.ok() && matches!(step.rop, ROp::Withdraw { .. })) {
            if let Some(h) = release_group(o0, o1).first() {
                out.fail(v(
                    "released-outside-withdrawal",
                    format!("{}: batch {} became released in a transaction that is not a successful WithdrawUnbonded", step.desc(), h.batch_id),
                ));
                return;
            }
        }
        // ---- loss on unbonding stake is spread pro rata over the release group
        if step.ok() && matches!(step.rop, ROp::Withdraw { .. }) {
            // "the batches released together" are all the matured ones: a successful withdrawal leaves no batch
            // whose unbonding period has elapsed unreleased (otherwise its loss lands on batches undelegated later)
            let (now, unb) = (cx.post.time, o0.params.unbonding_period);
            if let Some(h) = o1.history.iter().find(|h| !h.released && h.time + unb <= now) {
                out.fail(v(
                    "matured-batch-left-unreleased",
                    format!("{}: batch {} was undelegated at {} and matured at {} <= now {}, yet this successful withdrawal did not release it", step.desc(), h.batch_id, h.time, h.time + unb, now),
                ));
                return;
            }
            let group = release_group(o0, o1);
            if !group.is_empty() {
                let arrived = o0.bank_of(HUB, USEI).saturating_sub(accounted_before);
                let mut total_b: u128 = 0;
                for h in &group {
                    let (x, y) = batch_coins(h);
                    total_b += x + y;
                }
                out.count("release_groups", 1);
                if total_b > 0 {
                    let lost = arrived < total_b;
                    if group.len() >= 2 && lost {
                        self.nontrivial = true;
                        out.label("multi_batch_group_with_unbonding_loss");
                    }
                    for h in &group {
                        let claims = claims_on(o0, h.batch_id);
                        for tokn in 0..2 {
                            let (amt, bi, wr) = if tokn == 0 {
                                (h.bsei_amount.u128(), batch_coins(h).0, h.bsei_withdraw_rate)
                            } else {
                                (h.stsei_amount.u128(), batch_coins(h).1, h.stsei_withdraw_rate)
                            };
                            if amt == 0 {
                                continue;
                            }
                            let share = muldiv(bi, arrived, total_b);
                            let mut pay = 0u128;
                            let mut nclaims = 0u128;
                            for (_, x, y) in &claims {
                                let c = if tokn == 0 { *x } else { *y };
                                if c > 0 {
                                    pay += mul_floor(c, wr);
                                    nclaims += 1;
                                }
                            }
                            let lo = share.saturating_sub(6 + nclaims);
                            let hi = share + 3;
                            if pay < lo || pay > hi {
                                out.fail(v(
                                    &format!("release-group-share/{}", if tokn == 0 { "bsei" } else { "stsei" }),
                                    format!(
                                        "{}: batch {} {}: payable {} outside [{}, {}] (share = floor({} * {} / {}) = {}, {} claims; group of {} batches)",
                                        step.desc(), h.batch_id, if tokn == 0 { "bSei" } else { "stSei" }, pay, lo, hi, bi, arrived, total_b, share, nclaims, group.len()
                                    ),
                                ));
                                return;
                            }
                        }
                    }
                }
            }
        }
    }
    fn finish(&mut self, _cfg: &Cfg, _w: &World, _o: &Obs, out: &mut CaseResult) {
        out.nontrivial = self.nontrivial;
    }
}
