//! C03 — reported exchange rates equal backing over claims and price every mint / redeem.
use super::*;
use crate::util::*;

pub struct C03 {
    nontrivial: bool,
}

const ID: &str = "C03";

pub fn prop() -> HistProp {
    HistProp {
        id: ID,
        rule: "generated full-system histories; every step is re-priced exactly from public queries; non-trivial = the history contains a successful mint/convert/undelegation priced at a rate != 1 whose floor has a non-zero remainder; distinct by hash of the case",
        profile: |t| {
            let mut p = Profile::base();
            p.slash = 6;
            p.accrue = 6;
            p.update_index = 5;
            p.convert = 9;
            p.bond_bad = 2;
            long(p, t)
        },
        cfgs: cfg_strategy,
        quick: 4000,
        thorough: 30000,
        mk: |_, _, _| Box::new(C03 { nontrivial: false }),
        extra: None,
        many_batches: 1,
        zero_arrival: 0,
    }
}

fn v(sig: &str, detail: String) -> Violation {
    Violation::new(ID, format!("{}/{}", ID, sig), detail)
}

fn has_remainder_div(a: u128, r: cosmwasm_std::Decimal) -> bool {
    !r.is_zero() && (u256(a) * u256(ONE)) % u256(r.atomics().u128()) != cosmwasm_std::Uint256::zero()
}
fn has_remainder_mul(a: u128, r: cosmwasm_std::Decimal) -> bool {
    (u256(a) * u256(r.atomics().u128())) % u256(ONE) != cosmwasm_std::Uint256::zero()
}

impl C03 {
    fn mark(&mut self, out: &mut CaseResult, r: cosmwasm_std::Decimal, rem: bool) {
        if r != cosmwasm_std::Decimal::one() && rem {
            self.nontrivial = true;
            out.label("priced_at_rate_ne_1_with_remainder");
        }
    }
}

impl Checker for C03 {
    fn step(&mut self, cx: &StepCx, out: &mut CaseResult) {
        let (o0, o1, step) = (cx.o0, cx.o1, cx.step);
        // --- rate consistency with totals, supplies and pending requests observable at the same moment
        if o1.books() > 0 && o1.delegated > 0 {
            let eb = rate_of(o1.state.total_bond_bsei_amount.u128(), o1.bsei_claims());
            let es = rate_of(o1.state.total_bond_stsei_amount.u128(), o1.stsei_claims());
            if o1.state.bsei_exchange_rate != eb {
                out.fail(v(
                    "bsei-rate-inconsistent",
                    format!(
                        "after {}: reported bSei rate {} but backing {} / (supply {} + requested {}) = {}",
                        step.desc(), o1.state.bsei_exchange_rate, o1.state.total_bond_bsei_amount, o1.bsei.supply,
                        o1.batch.requested_bsei_with_fee, eb
                    ),
                ));
                return;
            }
            if o1.state.stsei_exchange_rate != es {
                out.fail(v(
                    "stsei-rate-inconsistent",
                    format!(
                        "after {}: reported stSei rate {} but backing {} / (supply {} + requested {}) = {}",
                        step.desc(), o1.state.stsei_exchange_rate, o1.state.total_bond_stsei_amount, o1.stsei.supply,
                        o1.batch.requested_stsei, es
                    ),
                ));
                return;
            }
            // deprecated mirror fields must agree
            if o1.state.exchange_rate != o1.state.bsei_exchange_rate || o1.state.total_bond_amount != o1.state.total_bond_bsei_amount {
                out.fail(v("deprecated-fields-disagree", format!("after {}: {:?}", step.desc(), o1.state)));
                return;
            }
        }
        let (rb, rs) = (o0.state.bsei_exchange_rate, o0.state.stsei_exchange_rate);
        let thr = o0.params.er_threshold;
        match &step.rop {
            ROp::BondBad { user, kind, .. } => {
                if step.ok() || o1.bsei.supply != o0.bsei.supply || o1.stsei.supply != o0.stsei.supply {
                    out.fail(v(
                        &format!("bad-bond-accepted/kind{}", kind),
                        format!("{} by {}: supply bSei {} -> {}, stSei {} -> {}", step.desc(), user, o0.bsei.supply, o1.bsei.supply, o0.stsei.supply, o1.stsei.supply),
                    ));
                }
            }
            ROp::Bond { user, st, amount } if step.ok() => {
                let (t0, t1) = if *st { (&o0.stsei, &o1.stsei) } else { (&o0.bsei, &o1.bsei) };
                let minted = t1.supply.saturating_sub(t0.supply);
                let credited = t1.balances.get(user).copied().unwrap_or(0).saturating_sub(t0.balances.get(user).copied().unwrap_or(0));
                if minted != credited || minted == 0 {
                    out.fail(v(
                        "bond-mint-not-credited",
                        format!("{}: supply grew by {} but the bonder was credited {}", step.desc(), minted, credited),
                    ));
                    return;
                }
                if *st {
                    let n = div_floor(*amount, rs);
                    if minted != n {
                        out.fail(v("bond-stsei-mint", format!("{}: minted {} != floor({} / {}) = {}", step.desc(), minted, amount, rs, n)));
                        return;
                    }
                    self.mark(out, rs, has_remainder_div(*amount, rs));
                } else {
                    let n = div_floor(*amount, rb);
                    if minted > n || (rb >= thr && minted != n) {
                        out.fail(v(
                            "bond-bsei-mint",
                            format!("{}: minted {} vs floor({} / {}) = {} (threshold {})", step.desc(), minted, amount, rb, n, thr),
                        ));
                        return;
                    }
                    self.mark(out, rb, has_remainder_div(*amount, rb));
                }
            }
            ROp::Hook { owner, caller, st, amount, convert: true } if step.ok() => {
                let recipient = caller; // the cw20 sender of the hook is credited
                let _ = owner;
                let (bb0, bb1) = (o0.state.total_bond_bsei_amount.u128(), o1.state.total_bond_bsei_amount.u128());
                let (bs0, bs1) = (o0.state.total_bond_stsei_amount.u128(), o1.state.total_bond_stsei_amount.u128());
                if *st {
                    // stSei -> bSei
                    let d = mul_floor(*amount, rs);
                    if bs0 < d || bs1 != bs0 - d || bb1 != bb0 + d {
                        out.fail(v(
                            "convert-stsei-pool-move",
                            format!("{}: pools bSei {} -> {}, stSei {} -> {}, expected move floor({} * {}) = {}", step.desc(), bb0, bb1, bs0, bs1, amount, rs, d),
                        ));
                        return;
                    }
                    let minted = o1.bsei.supply.saturating_sub(o0.bsei.supply);
                    let credited = o1.bsei.balances.get(recipient).copied().unwrap_or(0).saturating_sub(o0.bsei.balances.get(recipient).copied().unwrap_or(0));
                    let n = div_floor(d, rb);
                    if minted > n || (rb >= thr && minted != n) || minted != credited || o0.stsei.supply - o1.stsei.supply != *amount {
                        out.fail(v(
                            "convert-stsei-mint",
                            format!("{}: minted {} bSei (credited {}), expected <= floor({} / {}) = {}; stSei burnt {}", step.desc(), minted, credited, d, rb, n, o0.stsei.supply - o1.stsei.supply),
                        ));
                        return;
                    }
                    self.mark(out, rs, has_remainder_mul(*amount, rs));
                    self.mark(out, rb, has_remainder_div(d, rb));
                } else {
                    // bSei -> stSei
                    let dmax = mul_floor(*amount, rb);
                    if bb0 < bb1 {
                        out.fail(v("convert-bsei-pool-move", format!("{}: bSei pool grew {} -> {}", step.desc(), bb0, bb1)));
                        return;
                    }
                    let d = bb0 - bb1;
                    if d > dmax || bs1 != bs0 + d {
                        out.fail(v(
                            "convert-bsei-pool-move",
                            format!("{}: moved {} (max floor({} * {}) = {}), stSei pool {} -> {}", step.desc(), d, amount, rb, dmax, bs0, bs1),
                        ));
                        return;
                    }
                    let minted = o1.stsei.supply.saturating_sub(o0.stsei.supply);
                    let credited = o1.stsei.balances.get(recipient).copied().unwrap_or(0).saturating_sub(o0.stsei.balances.get(recipient).copied().unwrap_or(0));
                    let n = div_floor(d, rs);
                    if minted != n || minted != credited || o0.bsei.supply - o1.bsei.supply != *amount {
                        out.fail(v(
                            "convert-bsei-mint",
                            format!("{}: minted {} stSei (credited {}), expected floor({} / {}) = {}; bSei burnt {}", step.desc(), minted, credited, d, rs, n, o0.bsei.supply - o1.bsei.supply),
                        ));
                        return;
                    }
                    self.mark(out, rb, has_remainder_mul(*amount, rb));
                    self.mark(out, rs, has_remainder_div(d, rs));
                }
            }
            ROp::Hook { convert: false, .. } if step.ok() => {
                // an undelegating unbond: new history entry
                if o1.history.len() == o0.history.len() + 1 {
                    let h = o1.history.last().unwrap();
                    let und = sum_undelegate(step.evs(), HUB);
                    let eb = rate_of(o0.state.total_bond_bsei_amount.u128(), o1.bsei.supply + h.bsei_amount.u128());
                    let es = rate_of(o0.state.total_bond_stsei_amount.u128(), o1.stsei.supply + h.stsei_amount.u128());
                    if h.bsei_applied_exchange_rate != eb || h.stsei_applied_exchange_rate != es {
                        out.fail(v(
                            "undelegation-applied-rates",
                            format!("{}: history entry records rates {} / {}, recomputed {} / {}", step.desc(), h.bsei_applied_exchange_rate, h.stsei_applied_exchange_rate, eb, es),
                        ));
                        return;
                    }
                    // each pool gives up exactly the value of its own requests
                    let (vb, vs) = (mul_floor(h.bsei_amount.u128(), h.bsei_applied_exchange_rate), mul_floor(h.stsei_amount.u128(), h.stsei_applied_exchange_rate));
                    let (db, ds) = (
                        o0.state.total_bond_bsei_amount.u128().saturating_sub(o1.state.total_bond_bsei_amount.u128()),
                        o0.state.total_bond_stsei_amount.u128().saturating_sub(o1.state.total_bond_stsei_amount.u128()),
                    );
                    if o1.delegated > 0 && (db != vb || ds != vs) {
                        out.fail(v(
                            "undelegation-pool-deltas",
                            format!("{}: pools gave up {} / {} but the batch's requests are worth {} / {}", step.desc(), db, ds, vb, vs),
                        ));
                        return;
                    }
                    let exp = mul_floor(h.bsei_amount.u128(), h.bsei_applied_exchange_rate) + mul_floor(h.stsei_amount.u128(), h.stsei_applied_exchange_rate);
                    if und != exp {
                        out.fail(v(
                            "undelegation-amount",
                            format!("{}: undelegated {} != floor({} * {}) + floor({} * {}) = {}", step.desc(), und, h.bsei_amount, h.bsei_applied_exchange_rate, h.stsei_amount, h.stsei_applied_exchange_rate, exp),
                        ));
                        return;
                    }
                    self.mark(out, h.bsei_applied_exchange_rate, has_remainder_mul(h.bsei_amount.u128(), h.bsei_applied_exchange_rate));
                    self.mark(out, h.stsei_applied_exchange_rate, has_remainder_mul(h.stsei_amount.u128(), h.stsei_applied_exchange_rate));
                }
            }
            _ => {}
        }
    }
    fn finish(&mut self, _cfg: &Cfg, _w: &World, _o: &Obs, out: &mut CaseResult) {
        out.nontrivial = self.nontrivial;
    }
}
