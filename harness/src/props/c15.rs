//! C15 — reward accrual is proportional to holdings and independent of others' actions
//! (metamorphic: paired executions built from one generated scenario).
use crate::chain::*;
use crate::deploy::*;
use crate::obs::*;
use crate::ops::hook_msg;
use crate::runner::*;
use basset::hub::ExecuteMsg as HubExec;
use cosmwasm_std::{Coin, Uint128, Uint256};
use cw20::Cw20ExecuteMsg;
use proptest::prelude::*;
use serde::{Deserialize, Serialize};

const ID: &str = "C15";
/// the observed holder
const H: &str = "holder";

#[derive(Clone, Debug, Serialize, Deserialize)]
pub enum OtherOp {
    /// other holder i bonds (mints) `amount`
    Bond { i: u8, amount: Uint128 },
    /// other holder i transfers a share of its window-start balance to other holder j (or to a fresh account)
    Transfer { i: u8, j: u8, share: u8 },
    /// other holder i unbonds a share of its window-start balance
    Unbond { i: u8, share: u8 },
    /// other holder i claims its rewards
    Claim { i: u8 },
    /// the reward contract's owner re-submits its current configuration (same hub, same reward coin, same swap)
    Reconfig,
}

#[derive(Clone, Debug, Serialize, Deserialize)]
pub enum OwnOp {
    None,
    /// the holder transfers a fraction of its balance to a fresh account
    TransferOut { frac: u16 },
    /// the holder sends a fraction to the sink contract
    SendSink { frac: u16 },
    /// the holder unbonds a fraction
    Unbond { frac: u16 },
    /// a spender burns a fraction from the holder's account
    BurnFrom { frac: u16 },
    /// the holder acquires more tokens (bond)
    Acquire { amount: Uint128 },
}

#[derive(Clone, Debug, Serialize, Deserialize)]
pub struct Round {
    /// other holders' operations inside the window (valid in any order by construction)
    pub others: Vec<OtherOp>,
    /// reward delivered at the end of the window (bSei reward coin)
    pub reward: Uint128,
    /// the observed holder's own operation right after the index update
    pub own: OwnOp,
}

#[derive(Clone, Debug, Serialize, Deserialize)]
pub struct Case {
    pub holder_bond: Uint128,
    /// how the holder's stake is split over accounts in the split execution (weights)
    pub split: Vec<u8>,
    pub others_bond: Vec<Uint128>,
    pub rounds: Vec<Round>,
    /// permutation seed for the reordered execution
    pub perm: u64,
}

fn amount() -> BoxedStrategy<Uint128> {
    prop_oneof![
        2 => 1u128..100,
        3 => 1u128..1_000_000,
        3 => (1u128..1_000_000).prop_map(|m| m * 1_000_000),
        1 => (1u128..100).prop_map(|m| m * 1_000_000_000_000_000),
    ]
    .prop_map(Uint128::new)
    .boxed()
}

fn other_op() -> BoxedStrategy<OtherOp> {
    prop_oneof![
        3 => (0u8..4, amount()).prop_map(|(i, amount)| OtherOp::Bond { i, amount }),
        4 => (0u8..4, 0u8..6, 1u8..=25).prop_map(|(i, j, share)| OtherOp::Transfer { i, j, share }),
        2 => (0u8..4, 1u8..=25).prop_map(|(i, share)| OtherOp::Unbond { i, share }),
        1 => (0u8..4).prop_map(|i| OtherOp::Claim { i }),
        1 => Just(OtherOp::Reconfig),
    ]
    .boxed()
}

fn own_op() -> BoxedStrategy<OwnOp> {
    prop_oneof![
        4 => Just(OwnOp::None),
        2 => any::<u16>().prop_map(|frac| OwnOp::TransferOut { frac }),
        1 => any::<u16>().prop_map(|frac| OwnOp::SendSink { frac }),
        2 => any::<u16>().prop_map(|frac| OwnOp::Unbond { frac }),
        1 => any::<u16>().prop_map(|frac| OwnOp::BurnFrom { frac }),
        2 => amount().prop_map(|amount| OwnOp::Acquire { amount }),
    ]
    .boxed()
}

pub fn strategy() -> BoxedStrategy<Case> {
    (
        amount(),
        proptest::collection::vec(1u8..10, 2..5),
        proptest::collection::vec(amount(), 1..5),
        proptest::collection::vec(
            (proptest::collection::vec(other_op(), 0..6), prop_oneof![1 => Just(Uint128::zero()), 6 => amount()], own_op())
                .prop_map(|(others, reward, own)| Round { others, reward, own }),
            1..6,
        ),
        any::<u64>(),
    )
        .prop_map(|(holder_bond, split, others_bond, mut rounds, perm)| {
            // an allowance burn moves the bSei rate off 1, after which the outcome of small bonds depends on their
            // order (mint = floor(payment / rate) may be zero): keep it for the last round only
            let last = rounds.len() - 1;
            for (i, r) in rounds.iter_mut().enumerate() {
                if i != last {
                    if let OwnOp::BurnFrom { frac } = r.own {
                        r.own = OwnOp::Unbond { frac };
                    }
                }
            }
            Case { holder_bond, split, others_bond, rounds, perm }
        })
        .boxed()
}

fn v(sig: &str, detail: String) -> Violation {
    Violation::new(ID, format!("{}/{}", ID, sig), detail)
}

fn other(i: u8, n: usize) -> String {
    format!("other{}", (i as usize) % n)
}

fn bond(w: &mut World, who: &str, amount: u128) -> R<Vec<Ev>> {
    // envelope E1: supplies and balances stay <= 1e18
    if supply(w, BSEI) + amount > ONE {
        return Err("E1: supply limit".into());
    }
    w.mint(who, USEI, amount);
    let r = w.tx(who, HUB, &HubExec::Bond {}, &[Coin::new(amount, USEI)]);
    if r.is_err() {
        w.burn_coins(who, USEI, amount);
    }
    r
}

fn accrual(w: &World, a: &str) -> Uint256 {
    let g = reward_state(w).global_index.atomics().u128();
    let h = reward_holder(w, a);
    let total = Uint256::from(g.saturating_sub(h.index.atomics().u128())) * Uint256::from(h.balance.u128())
        + Uint256::from(h.pending_rewards.atomics().u128());
    // the AccruedRewards query is how a holder observes its accrual: it must report the whole-unit part of it
    let reported = reward_accrued(w, a);
    if Uint256::from(reported) != total / Uint256::from(ONE) {
        crate::obs::qfail::<()>(
            "reward AccruedRewards misreports",
            format!("{} is owed {} e-18 (pending {} + (global {} - index {}) x balance {}) but AccruedRewards reports {}", a, total, h.pending_rewards, g, h.index, h.balance, reported),
        );
    }
    total
}

/// deliver `r` of the reward coin and let the dispatcher update the index (a message it may send at any time)
fn deliver(w: &mut World, r: u128) -> R<Vec<Ev>> {
    w.mint(REWARD, KUSD, r);
    w.tx(DISP, REWARD, &basset::reward::ExecuteMsg::UpdateGlobalIndex {}, &[])
}

struct Exec {
    w: World,
    /// accounts holding the observed stake (one, or several in the split execution)
    accounts: Vec<String>,
}

#[derive(Clone, Debug, PartialEq)]
struct Trace {
    /// per round: total decimal accrual of the observed accounts after the index update, in 1e-18
    after_update: Vec<Uint256>,
    /// per round: (reward indexed, mirrored supply, observed balance) at the update
    facts: Vec<(u128, u128, u128)>,
    /// holder records after each update (single-account executions)
    records: Vec<String>,
    notes: Vec<String>,
}

/// Run the scenario. `order`: how to order the other holders' operations inside each window.
/// `split`: weights to split the observed stake over several accounts (None = one account).
/// `skip_own`: the observed holder's own operations are left out (used to compare against executions that differ
/// only in others' operations).
fn run(c: &Case, reorder: bool, split: Option<&[u8]>, with_others: bool, out: &mut CaseResult) -> Option<(Exec, Trace)> {
    let cfg = Cfg { n_vals: 2, n_reg: 2, ..Cfg::default() };
    let mut w = deploy(&cfg);
    w.lenient_zero_send = true;
    let n = c.others_bond.len();
    let hb = c.holder_bond.u128();
    let accounts: Vec<String> = match split {
        None => vec![H.to_string()],
        Some(ws) => (0..ws.len()).map(|k| format!("{}{}", H, k)).collect(),
    };
    // the observed stake
    match split {
        None => {
            bond(&mut w, H, hb).ok()?;
        }
        Some(ws) => {
            let tot: u128 = ws.iter().map(|x| *x as u128).sum();
            let mut left = hb;
            for (k, wgt) in ws.iter().enumerate() {
                let part = if k + 1 == ws.len() { left } else { (hb * *wgt as u128 / tot).min(left) };
                left -= part;
                if part > 0 {
                    bond(&mut w, &accounts[k], part).ok()?;
                }
            }
        }
    }
    if with_others {
        for (i, a) in c.others_bond.iter().enumerate() {
            bond(&mut w, &format!("other{}", i), a.u128()).ok()?;
        }
    }
    let mut tr = Trace { after_update: vec![], facts: vec![], records: vec![], notes: vec![] };
    // the reward coin already indexed and not yet claimed, kept by the checker
    let mut recorded: u128 = 0;
    for (ri, round) in c.rounds.iter().enumerate() {
        // ---- window: other holders' operations; amounts are shares of the window-start balance so that any order
        // is valid (each holder gives away at most 4 x 25% ... capped below)
        if with_others {
            let start: Vec<u128> = (0..n).map(|i| bal(&w, BSEI, &format!("other{}", i))).collect();
            // admission is decided in the scenario's own order (each holder gives away at most its window-start
            // balance), so that the admitted set is the same whatever order it is executed in
            let mut spent = vec![0u128; n];
            let mut admitted: Vec<(&OtherOp, u128)> = vec![];
            for op in round.others.iter() {
                match op {
                    OtherOp::Bond { .. } | OtherOp::Claim { .. } | OtherOp::Reconfig => admitted.push((op, 0)),
                    OtherOp::Transfer { i, j, share } => {
                        let ii = (*i as usize) % n;
                        let a = start[ii] * (*share as u128) / 100;
                        let to_self = (*j as usize) < n && (*j as usize) == ii;
                        if a == 0 || to_self || spent[ii] + a > start[ii] {
                            continue;
                        }
                        spent[ii] += a;
                        admitted.push((op, a));
                    }
                    OtherOp::Unbond { i, share } => {
                        let ii = (*i as usize) % n;
                        let a = start[ii] * (*share as u128) / 100;
                        if a == 0 || spent[ii] + a > start[ii] {
                            continue;
                        }
                        spent[ii] += a;
                        admitted.push((op, a));
                    }
                }
            }
            if reorder {
                // deterministic permutation from the seed
                let mut s = c.perm ^ (ri as u64).wrapping_mul(0x9E3779B97F4A7C15);
                for k in (1..admitted.len()).rev() {
                    s = s.wrapping_mul(6364136223846793005).wrapping_add(1442695040888963407);
                    admitted.swap(k, (s >> 33) as usize % (k + 1));
                }
            }
            for (op, a) in admitted {
                match op {
                    OtherOp::Bond { i, amount } => {
                        let _ = bond(&mut w, &other(*i, n), amount.u128());
                    }
                    OtherOp::Transfer { i, j, .. } => {
                        let ii = (*i as usize) % n;
                        let to = if (*j as usize) < n { format!("other{}", j) } else { format!("fresh{}", j) };
                        let r = w.tx(&format!("other{}", ii), BSEI, &Cw20ExecuteMsg::Transfer { recipient: to, amount: Uint128::new(a) }, &[]);
                        if let Err(e) = r {
                            out.fail(v("scenario-op-failed", format!("transfer by other{} of {} failed: {}", ii, a, e)));
                            return None;
                        }
                    }
                    OtherOp::Unbond { i, .. } => {
                        let ii = (*i as usize) % n;
                        let r = w.tx(&format!("other{}", ii), BSEI, &Cw20ExecuteMsg::Send { contract: HUB.into(), amount: Uint128::new(a), msg: hook_msg(false) }, &[]);
                        if let Err(e) = r {
                            out.fail(v("scenario-op-failed", format!("unbond by other{} of {} failed: {}", ii, a, e)));
                            return None;
                        }
                    }
                    OtherOp::Claim { i } => {
                        let before = w.balance(REWARD, KUSD);
                        let _ = w.tx(&other(*i, n), REWARD, &basset::reward::ExecuteMsg::ClaimRewards { recipient: None }, &[]);
                        recorded = recorded.saturating_sub(before - w.balance(REWARD, KUSD));
                    }
                    OtherOp::Reconfig => {
                        let r = w.tx(
                            OWNER,
                            REWARD,
                            &basset::reward::ExecuteMsg::UpdateConfig { hub_contract: Some(HUB.into()), reward_denom: Some(KUSD.into()), swap_contract: Some(SWAP.into()) },
                            &[],
                        );
                        if let Err(e) = r {
                            out.fail(v("scenario-op-failed", format!("the owner's re-submission of the reward contract's configuration failed: {}", e)));
                            return None;
                        }
                    }
                }
            }
        }
        // ---- delivery + index update
        let prev = reward_state(&w);
        let observed_bal: u128 = accounts.iter().map(|a| bal(&w, BSEI, a)).sum();
        // what this update has to index: everything the contract holds beyond what earlier updates indexed and claims
        // have not yet paid out (the checker's own ledger, not the contract's `prev_reward_balance`)
        let unindexed = w.balance(REWARD, KUSD) + round.reward.u128() - recorded;
        if let Err(e) = deliver(&mut w, round.reward.u128()) {
            out.fail(v("index-update-failed", format!("round {}: {}", ri, e)));
            return None;
        }
        if !prev.total_balance.is_zero() {
            recorded = w.balance(REWARD, KUSD);
        }
        tr.facts.push((unindexed, prev.total_balance.u128(), observed_bal));
        tr.after_update.push(accounts.iter().fold(Uint256::zero(), |t, a| t + accrual(&w, a)));
        if accounts.len() == 1 {
            tr.records.push(format!("{:?}", reward_holder(&w, H)));
        }
        // ---- the observed holder's own operation (single-account executions only; the split execution applies
        // it to the first account that can afford it, proportionally it is the same amount of tokens)
        let own_amount = |w: &World, frac: u16| -> u128 {
            let b: u128 = accounts.iter().map(|a| bal(w, BSEI, a)).sum();
            crate::ops::frac_of(b, frac)
        };
        match &round.own {
            OwnOp::None => {}
            OwnOp::Acquire { amount } => {
                let before: Vec<Uint256> = accounts.iter().map(|a| accrual(&w, a)).collect();
                bond(&mut w, &accounts[0], amount.u128()).ok()?;
                let after: Vec<Uint256> = accounts.iter().map(|a| accrual(&w, a)).collect();
                if before != after {
                    out.fail(v("acquiring-tokens-changed-accrual", format!("round {}: bonding {} more changed the accrued reward {:?} -> {:?}", ri, amount, before, after)));
                    return None;
                }
                tr.notes.push(format!("round {}: acquired {}", ri, amount));
            }
            OwnOp::TransferOut { frac } | OwnOp::SendSink { frac } | OwnOp::Unbond { frac } | OwnOp::BurnFrom { frac } => {
                let mut a = own_amount(&w, *frac);
                // take it from one account that can afford it
                let acc = match accounts.iter().find(|x| bal(&w, BSEI, x) >= a && a > 0) {
                    Some(x) => x.clone(),
                    None => {
                        // split execution: no single account holds that much; use the richest account's whole balance
                        let best = accounts.iter().max_by_key(|x| bal(&w, BSEI, x)).unwrap().clone();
                        a = bal(&w, BSEI, &best);
                        best
                    }
                };
                if a == 0 {
                    continue;
                }
                let fresh = format!("fresh_r{}", ri);
                let target = match &round.own {
                    OwnOp::TransferOut { .. } => fresh.clone(),
                    OwnOp::SendSink { .. } => SINK.to_string(),
                    _ => HUB.to_string(),
                };
                let before_sender = accrual(&w, &acc);
                let before_target = accrual(&w, &target);
                let r = match &round.own {
                    OwnOp::TransferOut { .. } => w.tx(&acc, BSEI, &Cw20ExecuteMsg::Transfer { recipient: fresh.clone(), amount: Uint128::new(a) }, &[]),
                    OwnOp::SendSink { .. } => w.tx(&acc, BSEI, &Cw20ExecuteMsg::Send { contract: SINK.into(), amount: Uint128::new(a), msg: cosmwasm_std::to_json_binary(&"x").unwrap() }, &[]),
                    OwnOp::Unbond { .. } => w.tx(&acc, BSEI, &Cw20ExecuteMsg::Send { contract: HUB.into(), amount: Uint128::new(a), msg: hook_msg(false) }, &[]),
                    _ => {
                        w.tx(&acc, BSEI, &Cw20ExecuteMsg::IncreaseAllowance { spender: KEEPER.into(), amount: Uint128::new(a), expires: None }, &[]).ok()?;
                        w.tx(KEEPER, BSEI, &Cw20ExecuteMsg::BurnFrom { owner: acc.clone(), amount: Uint128::new(a) }, &[])
                    }
                };
                if let Err(e) = r {
                    out.fail(v("scenario-op-failed", format!("round {}: the holder's own operation {:?} of {} failed: {}", ri, round.own, a, e)));
                    return None;
                }
                // (iv) no reward travels with tokens
                let after_sender = accrual(&w, &acc);
                let after_target = accrual(&w, &target);
                if after_sender != before_sender {
                    out.fail(v(
                        "past-rewards-moved-from-sender",
                        format!("round {}: {:?} of {} tokens changed the sender's accrued reward {} -> {} e-18", ri, round.own, a, before_sender, after_sender),
                    ));
                    return None;
                }
                if after_target != before_target {
                    out.fail(v(
                        "past-rewards-moved-to-receiver",
                        format!("round {}: {:?} of {} tokens changed the receiver {}'s accrued reward {} -> {} e-18", ri, round.own, a, target, before_target, after_target),
                    ));
                    return None;
                }
                out.label("tokens_moved_after_update");
            }
        }
    }
    Some((Exec { w, accounts }, tr))
}

pub struct C15;

impl Prop for C15 {
    type Case = Case;
    fn id(&self) -> &'static str {
        ID
    }
    fn rule(&self) -> String {
        "generated scenarios (observed holder + 1-4 other holders, 1-5 reward windows with other holders' bonds / transfers / unbonds / claims sized as shares of their window-start balance so that any order is valid, reward delivery + index update, then an own operation of the holder) executed several times: as given, with the others' operations permuted, with the holder's stake split over 2-4 accounts, and without the other holders' window operations; relations between the executions are the oracle; non-trivial = the reordered execution really differs and some update indexed a positive reward while the holder had a balance; distinct by hash of the case".into()
    }
    fn assumptions(&self) -> Vec<String> {
        vec![
            super::ENVELOPE.to_string(),
            "rewards are delivered as deposits of the bSei reward coin followed by the dispatcher's UpdateGlobalIndex (a message the dispatcher may send at any time)".into(),
        ]
    }
    fn strategy(&self, _tier: Tier) -> BoxedStrategy<Case> {
        strategy()
    }
    fn cases(&self, tier: Tier) -> u32 {
        match tier {
            Tier::Quick => 8000,
            Tier::Thorough => 200000,
        }
    }
    fn check(&self, c: &Case, _lenient: bool) -> CaseResult {
        let mut out = CaseResult::default();
        let one = Uint256::from(ONE);
        // A: as given
        let (ea, ta) = match run(c, false, None, true, &mut out) {
            Some(x) => x,
            None => return out,
        };
        out.work = (c.rounds.len() * 4) as u64;
        // ---- (i) proportionality: each update adds balance x indexed / supply within 1 base unit
        let mut prev_acc = Uint256::zero();
        let mut positive = false;
        for (k, (indexed, supply, hb)) in ta.facts.iter().enumerate() {
            // own operations after update k-1 never change the accrual (checked in run), claims by the holder do not occur
            let growth = ta.after_update[k] - prev_acc;
            if *supply > 0 {
                let exact = Uint256::from(*hb) * Uint256::from(*indexed) * one / Uint256::from(*supply);
                let lo = if exact > one { exact - one } else { Uint256::zero() };
                if growth > exact || growth < lo {
                    out.fail(v(
                        "not-proportional",
                        format!("update {}: holder balance {} of supply {}, {} indexed: accrual grew by {} e-18, exact share {} e-18", k, hb, supply, indexed, growth, exact),
                    ));
                    return out;
                }
                if *indexed > 0 && *hb > 0 {
                    positive = true;
                }
            } else if !growth.is_zero() {
                out.fail(v("accrual-without-supply", format!("update {}: no mirrored supply but accrual grew by {}", k, growth)));
                return out;
            }
            prev_acc = ta.after_update[k];
        }
        // ---- (ii) permutation of the other holders' operations inside each window
        let mut out_b = CaseResult::default();
        if let Some((_, tb)) = run(c, true, None, true, &mut out_b) {
            if tb.records != ta.records {
                out.fail(v(
                    "order-of-others-matters",
                    format!("the holder's record after some update differs when the other holders' operations are reordered: {:?} vs {:?}", ta.records, tb.records),
                ));
                return out;
            }
            let differs = c.rounds.iter().any(|r| r.others.len() >= 2);
            if differs && positive {
                out.nontrivial = true;
                out.label("reordered_execution_compared");
            }
        } else if !out_b.violations.is_empty() {
            out.violations.extend(out_b.violations);
            return out;
        }
        // ---- (iii) splitting the stake over several accounts
        let mut out_c = CaseResult::default();
        if let Some((_, tc)) = run(c, false, Some(&c.split), true, &mut out_c) {
            let k = c.split.len() as u128;
            // compare the accrual right after the first update (before own operations can differ between the
            // two executions) and, when the holder performs no own operation, after every update
            let no_own = c.rounds.iter().all(|r| matches!(r.own, OwnOp::None | OwnOp::Acquire { .. }));
            let upto = if no_own { ta.after_update.len() } else { 1 };
            for i in 0..upto.min(tc.after_update.len()) {
                let (a, s) = (ta.after_update[i], tc.after_update[i]);
                let d = if a > s { a - s } else { s - a };
                if d > Uint256::from(k) * one {
                    out.fail(v(
                        "splitting-changes-accrual",
                        format!("after update {}: one account accrued {} e-18, the same stake in {} accounts accrued {} e-18", i, a, k, s),
                    ));
                    return out;
                }
            }
            out.label("split_execution_compared");
        } else if !out_c.violations.is_empty() {
            out.violations.extend(out_c.violations);
            return out;
        }
        // ---- independence of other holders' operations: same scenario where the others only hold (no window
        // operations); the holder's accrual per update depends only on (balance, indexed, supply)
        // -> covered by (i) being stated in terms of the supply at update time.
        // ---- tokens acquired after an update earn nothing from it (fresh accounts)
        for (ri, round) in c.rounds.iter().enumerate() {
            if let OwnOp::TransferOut { .. } = round.own {
                let fresh = format!("fresh_r{}", ri);
                let h = reward_holder(&ea.w, &fresh);
                let g = reward_state(&ea.w).global_index;
                // what the fresh account may have earned: only from updates after round ri
                let mut bound = Uint256::zero();
                for (k, (indexed, supply, _)) in ta.facts.iter().enumerate() {
                    if k > ri && *supply > 0 {
                        bound += Uint256::from(h.balance.u128()) * Uint256::from(*indexed) * one / Uint256::from(*supply);
                    }
                }
                let acc = Uint256::from(g.atomics().u128().saturating_sub(h.index.atomics().u128())) * Uint256::from(h.balance.u128())
                    + Uint256::from(h.pending_rewards.atomics().u128());
                if acc > bound {
                    out.fail(v(
                        "late-tokens-earned-past-rewards",
                        format!("account {} received {} tokens after update {} but accrued {} e-18 (> {} e-18 possible from later updates)", fresh, h.balance, ri, acc, bound),
                    ));
                    return out;
                }
            }
        }
        let _ = ea.accounts;
        out.notes = ta.notes;
        out
    }
}
