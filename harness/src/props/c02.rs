//! C02 — the hub never books more stake than is delegated; bonds are delegated in full.
use super::*;
use crate::chain::Ev;

pub struct C02 {
    nontrivial: bool,
}

const ID: &str = "C02";

pub fn prop() -> HistProp {
    HistProp {
        id: ID,
        rule: "generated full-system histories (config x op sequence) from a fresh deployment; non-trivial = the history contains a successful bond onto an uneven delegation layout (max-min > 1) with >= 2 registered validators, or a batch undelegation touching >= 2 validators; distinct by hash of the case",
        profile: |t| {
            let mut p = Profile::base();
            p.registry = 5;
            p.slash = 5;
            p.accrue = 5;
            p.update_index = 4;
            long(p, t)
        },
        cfgs: cfg_strategy,
        quick: 4000,
        thorough: 30000,
        mk: |_, _, _| Box::new(C02 { nontrivial: false }),
        extra: Some((3, |_| uneven_bond_scenario_strategy(cfg_strategy()))),
        many_batches: 0,
        zero_arrival: 0,
    }
}

fn v(sig: &str, detail: String) -> Violation {
    Violation::new(ID, format!("{}/{}", ID, sig), detail)
}

impl Checker for C02 {
    fn step(&mut self, cx: &StepCx, out: &mut CaseResult) {
        let (o0, o1, step) = (cx.o0, cx.o1, cx.step);
        // a bond whose Delegate message fails for lack of funds tried to delegate more than payment + liquid balance
        if let (ROp::Bond { amount, .. }, Err(e)) = (&step.rop, &step.res) {
            if e.contains("staking: insufficient funds") {
                out.fail(v(
                    "bond-over-delegates",
                    format!("{}: a delegate message could not be funded although {} was paid in and the hub held {} liquid: the plan exceeds the payment", step.desc(), amount, o0.bank_of(HUB, USEI)),
                ));
                return;
            }
        }
        if step.rop.is_env() || !step.ok() {
            return;
        }
        let evs = step.evs();
        let name = step.rop.name();
        // --- (1) books never exceed the chain delegations after a successful hub pricing transaction
        if has_hub_pricing_exec(evs) && o1.books() > o1.delegated {
            out.fail(v(
                &format!("books-exceed-delegations/{}", name),
                format!("after {}: booked {} > delegated {}", step.desc(), o1.books(), o1.delegated),
            ));
            return;
        }
        // ... and so must the totals the hub *stored* (the State query re-syncs its answer; the next transaction and
        // the dispatcher start from what was stored)
        if has_hub_pricing_exec(evs) && o1.stored_books > o1.delegated {
            out.fail(v(
                &format!("stored-books-exceed-delegations/{}", name),
                format!("after {}: the hub stored pool totals of {} but only {} is delegated (the State query reports {})", step.desc(), o1.stored_books, o1.delegated, o1.books()),
            ));
            return;
        }
        // --- (2) every coin sent with a bond-type call is delegated in that call, to registered validators
        // walk the trace: each hub bond-type execution is followed (before the next Exec) by its Delegate events
        let mut i = 0;
        while i < evs.len() {
            if let Ev::Exec { contract, msg, funds, .. } = &evs[i] {
                let is_bond = contract == HUB
                    && (msg.starts_with("{\"bond\"") || msg.starts_with("{\"bond_for_st_sei\"") || msg.starts_with("{\"bond_rewards\""));
                if is_bond {
                    let paid: u128 = funds.iter().filter(|c| c.denom == USEI).map(|c| c.amount.u128()).sum();
                    let mut j = i + 1;
                    let mut delegated = 0u128;
                    let mut targets: Vec<String> = vec![];
                    while j < evs.len() {
                        match &evs[j] {
                            Ev::Delegate { delegator, validator, amount } if delegator == HUB => {
                                delegated += *amount;
                                targets.push(validator.clone());
                            }
                            Ev::WithdrawReward { .. } => {}
                            _ => break,
                        }
                        j += 1;
                    }
                    if delegated != paid {
                        out.fail(v(
                            &format!("bond-not-delegated-in-full/{}", name),
                            format!("{}: payment {} but delegate messages sum to {}", step.desc(), paid, delegated),
                        ));
                        return;
                    }
                    for t in &targets {
                        if !o1.registry.contains(t) {
                            out.fail(v(
                                &format!("delegated-to-unregistered/{}", name),
                                format!("{}: delegated to {} which is not registered ({:?})", step.desc(), t, o1.registry),
                            ));
                            return;
                        }
                    }
                    // classification: uneven layout with >= 2 registered validators
                    if o0.registry.len() >= 2 {
                        let ds: Vec<u128> = o0.registry.iter().map(|r| *o0.delegations.get(r).unwrap_or(&0)).collect();
                        let (mx, mn) = (*ds.iter().max().unwrap(), *ds.iter().min().unwrap());
                        if mx - mn > 1 {
                            self.nontrivial = true;
                            out.label("bond_onto_uneven_layout");
                        }
                    }
                }
            }
            i += 1;
        }
        // --- (3) exact book-keeping of the totals relative to the synced pre-transaction view
        let und = sum_undelegate(evs, HUB);
        let del = sum_delegate(evs, HUB);
        match &step.rop {
            ROp::Bond { amount, st, .. } => {
                let (b0, b1) = if *st {
                    (o0.state.total_bond_stsei_amount.u128(), o1.state.total_bond_stsei_amount.u128())
                } else {
                    (o0.state.total_bond_bsei_amount.u128(), o1.state.total_bond_bsei_amount.u128())
                };
                if b1 != b0 + amount || o1.books() != o0.books() + amount {
                    out.fail(v(
                        "bond-books-delta",
                        format!("{}: pool {} -> {} (total {} -> {}), payment {}", step.desc(), b0, b1, o0.books(), o1.books(), amount),
                    ));
                    return;
                }
            }
            ROp::Hook { convert: false, .. } => {
                if o0.books() < und || o1.books() != o0.books() - und {
                    out.fail(v(
                        "undelegation-books-delta",
                        format!("{}: booked {} -> {} but undelegated {}", step.desc(), o0.books(), o1.books(), und),
                    ));
                    return;
                }
                let touched = evs.iter().filter(|e| matches!(e, Ev::Undelegate { .. })).count();
                if touched >= 2 {
                    self.nontrivial = true;
                    out.label("undelegation_touching_2plus_validators");
                }
            }
            ROp::Hook { convert: true, .. } | ROp::CheckSlashing { .. } | ROp::BurnFrom { .. } => {
                if has_hub_pricing_exec(evs) && o1.books() != o0.books() {
                    out.fail(v(
                        &format!("books-changed/{}", name),
                        format!("{}: booked total {} -> {}", step.desc(), o0.books(), o1.books()),
                    ));
                    return;
                }
            }
            ROp::UpdateIndex { .. } | ROp::RemoveVal { .. } | ROp::Redelegations { .. } => {
                if o1.books() != o0.books() + del {
                    out.fail(v(
                        &format!("rebond-books-delta/{}", name),
                        format!("{}: booked {} -> {} but re-delegated rewards {}", step.desc(), o0.books(), o1.books(), del),
                    ));
                    return;
                }
            }
            _ => {}
        }
        // --- (4) liquid balance of the staking coin untouched by bond-type, convert, index-update and
        // slashing-check transactions
        let neutral = matches!(
            step.rop,
            ROp::Bond { .. }
                | ROp::Hook { convert: true, .. }
                | ROp::UpdateIndex { .. }
                | ROp::CheckSlashing { .. }
                | ROp::RemoveVal { .. }
                | ROp::Redelegations { .. }
                | ROp::BurnFrom { .. }
                | ROp::AddVal { .. }
        );
        if neutral && o0.bank_of(HUB, USEI) != o1.bank_of(HUB, USEI) {
            out.fail(v(
                &format!("hub-liquid-balance-changed/{}", name),
                format!("{}: hub liquid balance {} -> {}", step.desc(), o0.bank_of(HUB, USEI), o1.bank_of(HUB, USEI)),
            ));
        }
    }
    fn finish(&mut self, _cfg: &Cfg, _w: &World, _o: &Obs, out: &mut CaseResult) {
        out.nontrivial = self.nontrivial;
    }
}
