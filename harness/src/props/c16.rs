//! C16 — reward-contract balances mirror bSei token balances at all times.
use super::*;

pub struct C16 {
    allowance_op: bool,
    hub_burn: bool,
}

const ID: &str = "C16";

pub fn prop() -> HistProp {
    HistProp {
        id: ID,
        rule: "generated bSei operation sequences by holders, spenders and the hub inside full-system histories: mint, transfer (to self, to contracts), send (to the hub with Unbond / Convert, to a sink), all allowance operations, BurnFrom, hub burns; after every step the reward contract's Holder balance of every address the token or the reward contract enumerates (plus all principals) must equal its cw20 balance and the totals must agree; non-trivial = the history contains a successful allowance-based operation and a hub-mediated burn; distinct by hash of the case",
        profile: |t| {
            let mut p = super::c14::reward_profile(t);
            p.transfer = 12;
            p.transfer_from = 8;
            p.burn_from = 6;
            p.hook_from = 6;
            p.send_sink = 4;
            p.allow = 4;
            p.disallow = 2;
            p.unbond = 8;
            p.convert = 6;
            p.claim = 3;
            p.accrue = 4;
            p.update_index = 3;
            p
        },
        cfgs: cfg_strategy,
        quick: 5000,
        thorough: 40000,
        mk: |_, _, _| Box::new(C16 { allowance_op: false, hub_burn: false }),
        extra: Some((1, |t| many_accounts_scenario_strategy(&prop().profile.clone()(t), cfg_strategy()))),
        many_batches: 0,
        zero_arrival: 0,
    }
}

fn v(sig: &str, detail: String) -> Violation {
    Violation::new(ID, format!("{}/{}", ID, sig), detail)
}

impl Checker for C16 {
    fn step(&mut self, cx: &StepCx, out: &mut CaseResult) {
        let (o1, step) = (cx.o1, cx.step);
        let name = step.rop.name();
        if step.ok() {
            match &step.rop {
                ROp::TransferFrom { st: false, .. } | ROp::BurnFrom { st: false, .. } => self.allowance_op = true,
                ROp::Hook { st: false, owner, caller, .. } => {
                    self.hub_burn = true;
                    if owner != caller {
                        self.allowance_op = true;
                    }
                }
                _ => {}
            }
        }
        if o1.reward.state.total_balance.u128() != o1.bsei.supply {
            out.fail(v(
                &format!("total-mismatch/{}", name),
                format!("after {}: reward contract total {} but bSei supply {}", step.desc(), o1.reward.state.total_balance, o1.bsei.supply),
            ));
            return;
        }
        // every address either contract knows about
        let mut addrs: std::collections::BTreeSet<&String> = o1.bsei.balances.keys().collect();
        addrs.extend(o1.reward.holders.keys());
        for a in addrs {
            let tb = o1.bsei.balances.get(a).copied().unwrap_or_else(|| crate::obs::bal(cx.post, BSEI, a));
            let rb = o1.reward.holders.get(a).map(|h| h.balance.u128()).unwrap_or_else(|| crate::obs::reward_holder(cx.post, a).balance.u128());
            if tb != rb {
                out.fail(v(
                    &format!("holder-mismatch/{}", name),
                    format!("after {}: {} holds {} bSei but the reward contract records {}", step.desc(), a, tb, rb),
                ));
                return;
            }
        }
    }
    fn finish(&mut self, _cfg: &Cfg, _w: &World, _o: &Obs, out: &mut CaseResult) {
        out.nontrivial = self.allowance_op && self.hub_burn;
        if self.allowance_op {
            out.label("allowance_based_operation");
        }
        if self.hub_burn {
            out.label("hub_mediated_burn");
        }
    }
}
