//! C18 — both tokens conserve supply; only the hub mints and burns (model-based cw20 testing).
use crate::chain::*;
use crate::deploy::*;
use crate::obs::*;
use crate::runner::*;
use basset_sei_rewards_dispatcher::msg::ExecuteMsg as DExec;
use cosmwasm_std::{to_json_binary, BlockInfo, Timestamp, Uint128};
use cw20::{Cw20Coin, Cw20ExecuteMsg, Cw20QueryMsg, Expiration, MinterResponse};
use proptest::prelude::*;
use serde::{Deserialize, Serialize};
use std::collections::BTreeMap;

const ID: &str = "C18";
const TOK: &str = "tokenundertest";

#[derive(Clone, Debug, Serialize, Deserialize)]
pub enum Exp {
    None,
    Never,
    /// height offset from now (may be 0 = already expired)
    Height(u8),
    /// seconds offset from now
    Time(u8),
}

#[derive(Clone, Debug, Serialize, Deserialize)]
pub enum TokOp {
    Transfer { from: u8, to: u8, k: u8 },
    Send { from: u8, k: u8 },
    Mint { by: u8, to: u8, amount: Uint128 },
    Burn { by: u8, k: u8 },
    IncAllow { owner: u8, spender: u8, k: u8, exp: Exp },
    DecAllow { owner: u8, spender: u8, k: u8, exp: Exp },
    TransferFrom { spender: u8, owner: u8, to: u8, k: u8 },
    SendFrom { spender: u8, owner: u8, k: u8 },
    BurnFrom { spender: u8, owner: u8, k: u8 },
    Advance { secs: u8 },
    /// move the clock to the expiry second of the k-th stored time-based allowance (+ offset -1 / 0 / +1)
    AdvanceToExpiry { k: u8, off: i8 },
    /// stSei only: UpdateMinter attempt
    UpdateMinter { by: u8, to: Option<u8> },
    /// stSei only: marketing update attempt
    UpdateMarketing { by: u8 },
}

#[derive(Clone, Debug, Serialize, Deserialize)]
pub struct Case {
    pub stsei: bool,
    pub name: String,
    pub symbol: String,
    pub decimals: u8,
    /// (principal index, amount): repeated addresses and zero amounts allowed
    pub initial: Vec<(u8, Uint128)>,
    pub ops: Vec<TokOp>,
}

/// principals: 0..4 users, 5 = hub, 6 = sink contract, 7 = owner
fn who(i: u8) -> String {
    match i {
        5 => HUB.to_string(),
        6 => SINK.to_string(),
        7 => OWNER.to_string(),
        // indices 200.. spell one of the first principals in upper case (the same account to the chain, whose
        // addresses are case-insensitive: MockApi, like bech32, normalises to lower case)
        k if k >= 200 => who((k - 200) % 8).to_uppercase(),
        // indices 8.. are further plain accounts (more than one 30-entry page of AllAccounts)
        k => format!("acct{}", k % 48),
    }
}

fn exp_strategy() -> BoxedStrategy<Exp> {
    prop_oneof![3 => Just(Exp::None), 2 => Just(Exp::Never), 2 => (0u8..4).prop_map(Exp::Height), 2 => (0u8..60).prop_map(Exp::Time)].boxed()
}

fn op_strategy() -> BoxedStrategy<TokOp> {
    let p = || 0u8..8;
    let u = || 0u8..5;
    let k = || 0u8..8;
    prop_oneof![
        6 => (u(), prop_oneof![3 => p(), 1 => 8u8..48], k()).prop_map(|(from, to, k)| TokOp::Transfer { from, to, k }),
        2 => (u(), k()).prop_map(|(from, k)| TokOp::Send { from, k }),
        4 => (p(), p(), prop_oneof![Just(0u128), 1u128..1000, 1u128..1_000_000_000_000u128]).prop_map(|(by, to, a)| TokOp::Mint { by, to, amount: Uint128::new(a) }),
        3 => (p(), k()).prop_map(|(by, k)| TokOp::Burn { by, k }),
        6 => (u(), p(), k(), exp_strategy()).prop_map(|(owner, spender, k, exp)| TokOp::IncAllow { owner, spender, k, exp }),
        2 => (u(), p(), k(), exp_strategy()).prop_map(|(owner, spender, k, exp)| TokOp::DecAllow { owner, spender, k, exp }),
        5 => (p(), u(), p(), k()).prop_map(|(spender, owner, to, k)| TokOp::TransferFrom { spender, owner, to, k }),
        2 => (p(), u(), k()).prop_map(|(spender, owner, k)| TokOp::SendFrom { spender, owner, k }),
        3 => (p(), u(), k()).prop_map(|(spender, owner, k)| TokOp::BurnFrom { spender, owner, k }),
        3 => (0u8..70).prop_map(|secs| TokOp::Advance { secs }),
        2 => (any::<u8>(), -1i8..=1).prop_map(|(k, off)| TokOp::AdvanceToExpiry { k, off }),
        1 => (p(), proptest::option::of(p())).prop_map(|(by, to)| TokOp::UpdateMinter { by, to }),
        1 => p().prop_map(|by| TokOp::UpdateMarketing { by }),
    ]
    .boxed()
}

pub fn strategy() -> BoxedStrategy<Case> {
    (
        any::<bool>(),
        prop_oneof![6 => Just("token".to_string()), 1 => Just("ab".to_string()), 1 => "[a-z]{3,50}", 1 => "[a-z]{51,60}"],
        prop_oneof![6 => Just("TOKEN".to_string()), 1 => Just("T1X".to_string()), 1 => "[a-zA-Z\\-]{3,12}", 1 => Just("AB".to_string())],
        prop_oneof![6 => 0u8..=18, 1 => 19u8..40],
        proptest::collection::vec((prop_oneof![8 => 0u8..8, 1 => 200u8..208], prop_oneof![1 => Just(0u128), 3 => 1u128..1000, 2 => 1u128..1_000_000_000_000_000u128].prop_map(Uint128::new)), 0..8),
        proptest::collection::vec(op_strategy(), 0..40),
        0u32..20,
    )
        .prop_map(|(stsei, name, symbol, decimals, mut initial, ops, roll)| {
            // most cases: valid metadata and distinct addresses, so that the operation sequence actually runs
            let (mut name, mut symbol, mut decimals) = (name, symbol, decimals);
            if roll % 4 != 0 {
                name = "token".into();
                symbol = "TOKEN".into();
                decimals = decimals % 19;
            }
            if roll % 6 != 5 {
                // upper-case spellings only in a sixth of the cases (the stSei token refuses them at instantiate)
                for e in initial.iter_mut() {
                    if e.0 >= 200 {
                        e.0 = (e.0 - 200) % 8;
                    }
                }
            }
            if roll % 5 != 0 {
                let mut seen = std::collections::BTreeSet::new();
                initial.retain(|(i, _)| seen.insert(who(*i).to_lowercase()));
            }
            let mut ops = ops;
            if roll % 8 == 7 {
                // more accounts than one page of AllAccounts
                initial.retain(|(i, _)| *i != 0);
                initial.insert(0, (0, Uint128::new(100_000)));
                let n = 31 + (roll as u8 % 9);
                let mut pre: Vec<TokOp> = (0..n).map(|j| TokOp::Transfer { from: 0, to: 8 + j, k: 1 }).collect();
                pre.extend(ops);
                ops = pre;
            }
            Case { stsei, name, symbol, decimals, initial, ops }
        })
        .boxed()
}

fn v(sig: &str, detail: String) -> Violation {
    Violation::new(ID, format!("{}/{}", ID, sig), detail)
}

#[derive(Clone, Debug, Default)]
struct Model {
    bal: BTreeMap<String, u128>,
    supply: u128,
    /// (owner, spender) -> (amount, expiration)
    allow: BTreeMap<(String, String), (u128, Expiration)>,
}

fn amount_for(base: u128, k: u8) -> u128 {
    match k {
        0 => 0,
        1 => 1,
        2 => base / 4,
        3 => base / 2,
        4 => base,
        5 => base + 1,
        6 => base.saturating_mul(5) / 4 + 1,
        _ => base.saturating_sub(1),
    }
}

fn block(w: &World) -> BlockInfo {
    BlockInfo { height: w.height, time: Timestamp::from_seconds(w.time), chain_id: "minichain".into() }
}

fn to_exp(e: &Exp, w: &World) -> Option<Expiration> {
    match e {
        Exp::None => None,
        Exp::Never => Some(Expiration::Never {}),
        Exp::Height(h) => Some(Expiration::AtHeight(w.height + *h as u64)),
        Exp::Time(t) => Some(Expiration::AtTime(Timestamp::from_seconds(w.time + *t as u64))),
    }
}

pub struct C18;

impl C18 {
    /// all balances / supply / allowances agree with the model; sum of enumerated balances = supply
    fn compare(&self, w: &World, m: &Model, ctx: &str) -> Option<Violation> {
        let tname = ctx;
        let sup = supply(w, TOK);
        if sup != m.supply {
            return Some(v("supply-differs-from-model", format!("{}: total_supply {} but the reference ledger says {}", tname, sup, m.supply)));
        }
        let accounts = all_accounts(w, TOK);
        let mut sum = 0u128;
        for a in &accounts {
            sum += bal(w, TOK, a);
        }
        if sum != sup {
            return Some(v("sum-of-balances", format!("{}: balances of all {} accounts sum to {} but total_supply is {}", tname, accounts.len(), sum, sup)));
        }
        let mut addrs: Vec<String> = (0..8u8).map(who).collect();
        for a in m.bal.keys() {
            if !addrs.contains(a) {
                addrs.push(a.clone());
            }
        }
        for a in addrs {
            let b = bal(w, TOK, &a);
            if b != m.bal.get(&a).copied().unwrap_or(0) {
                return Some(v("balance-differs-from-model", format!("{}: {} holds {} but the reference ledger says {}", tname, a, b, m.bal.get(&a).copied().unwrap_or(0))));
            }
            if b > 0 && !accounts.contains(&a) {
                return Some(v("account-not-enumerated", format!("{}: {} holds {} but AllAccounts does not list it", tname, a, b)));
            }
        }
        for ((o, s), (amt, exp)) in &m.allow {
            let r: cw20::AllowanceResponse = w
                .query(TOK, &Cw20QueryMsg::Allowance { owner: o.clone(), spender: s.clone() })
                .unwrap_or_else(|e| qfail("Allowance", e));
            if r.allowance.u128() != *amt || (*amt > 0 && r.expires != *exp) {
                return Some(v("allowance-differs-from-model", format!("{}: allowance {} -> {} is {:?}, reference says {} / {:?}", tname, o, s, r, amt, exp)));
            }
        }
        let minter: Option<MinterResponse> = w.query(TOK, &Cw20QueryMsg::Minter {}).unwrap_or_else(|e| qfail("Minter", e));
        match minter {
            Some(mr) if mr.minter == HUB => None,
            other => Some(v("minter-not-hub", format!("{}: Minter query returns {:?}", tname, other))),
        }
    }
}

impl Prop for C18 {
    type Case = Case;
    fn id(&self) -> &'static str {
        ID
    }
    fn rule(&self) -> String {
        "model-based: generated instantiate messages for the bSei and stSei token (0-7 initial balances with repeated addresses and zero amounts; valid and invalid name / symbol / decimals) followed by up to 40 cw20 operations by arbitrary principals (users, the hub, a contract, the owner) with amounts below / at / above balances and allowances, Never / AtHeight / AtTime expirations, clock moves across expirations, stSei minter / marketing messages; a reference cw20 ledger decides what must be rejected and what an accepted operation must do; non-trivial = the sequence has an allowance whose expiry was crossed and a rejected operation; class: instantiate with repeated addresses; distinct by hash of the case".into()
    }
    fn assumptions(&self) -> Vec<String> {
        vec![
            "the token under test is instantiated inside a full deployment; for bSei the dispatcher's bsei_reward_contract points at a sink so that balance mirroring (C16) does not interfere".into(),
            "the reference ledger only states necessary conditions for acceptance (an implementation may reject more, e.g. zero amounts)".into(),
        ]
    }
    fn strategy(&self, _tier: Tier) -> BoxedStrategy<Case> {
        strategy()
    }
    fn cases(&self, tier: Tier) -> u32 {
        match tier {
            Tier::Quick => 25000,
            Tier::Thorough => 400_000,
        }
    }
    fn check(&self, c: &Case, _lenient: bool) -> CaseResult {
        let mut out = CaseResult::default();
        let cfg = Cfg { n_vals: 1, n_reg: 1, ..Cfg::default() };
        let mut w = deploy(&cfg);
        w.lenient_zero_send = true;
        // the hub books some stake so that CheckSlashing runs against a live state
        w.mint("acct0", USEI, 1000);
        let _ = w.tx("acct0", HUB, &basset::hub::ExecuteMsg::BondForStSei {}, &[cosmwasm_std::Coin::new(1000u128, USEI)]);
        if !c.stsei {
            w.tx(
                OWNER,
                DISP,
                &DExec::UpdateConfig {
                    hub_contract: None,
                    bsei_reward_contract: Some(SINK.into()),
                    stsei_reward_denom: None,
                    bsei_reward_denom: None,
                    krp_keeper_address: None,
                    krp_keeper_rate: None,
                },
                &[],
            )
            .expect("dispatcher update");
        }
        let tname = if c.stsei { "stSei" } else { "bSei" };
        let initial: Vec<Cw20Coin> = c.initial.iter().map(|(i, a)| Cw20Coin { address: who(*i), amount: *a }).collect();
        let repeated = {
            let mut seen = std::collections::BTreeSet::new();
            c.initial.iter().any(|(i, _)| !seen.insert(who(*i).to_lowercase()))
        };
        let r = if c.stsei {
            let mut m = stsei_init(HUB, initial.clone());
            m.name = c.name.clone();
            m.symbol = c.symbol.clone();
            m.decimals = c.decimals;
            w.instantiate(Kind::Stsei, OWNER, TOK, &m)
        } else {
            let mut m = bsei_init(HUB, initial.clone());
            m.name = c.name.clone();
            m.symbol = c.symbol.clone();
            m.decimals = c.decimals;
            w.instantiate(Kind::Bsei, OWNER, TOK, &m)
        };
        if repeated {
            out.label("instantiate_with_repeated_addresses");
            // C18 quantifies over instantiate messages with repeated addresses: the same account named twice (in any
            // spelling) would be credited once per row while... the supply counts every row; it must be refused
            if r.is_ok() && c.initial.iter().any(|(i, _)| *i >= 200) {
                out.label("instantiate_with_case_variant_repeat_accepted");
            }
        }
        if c.initial.iter().any(|(i, _)| *i >= 200) {
            out.label("instantiate_with_upper_case_address");
        }
        if r.is_err() {
            out.label("instantiate_rejected");
            out.work = 1;
            return out;
        }
        let mut m = Model::default();
        for coin in &initial {
            // account identity is the normalised (lower-case) address
            *m.bal.entry(coin.address.to_lowercase()).or_default() += coin.amount.u128();
            m.supply += coin.amount.u128();
        }
        if let Some(x) = self.compare(&w, &m, &format!("{} right after instantiate with initial balances {:?}", tname, c.initial)) {
            let sig = x.signature.clone();
            out.fail(Violation::new(ID, format!("{}/instantiate/{}", sig, if c.stsei { "stsei" } else { "bsei" }), x.detail));
            return out;
        }
        let mut crossed_expiry = false;
        let mut rejected = false;
        for (idx, op) in c.ops.iter().enumerate() {
            out.work += 1;
            let pre = w.clone();
            w.trace.clear();
            let blk = block(&w);
            // (description, sender, message, must_reject, effect on the model if accepted)
            let mut m2 = m.clone();
            let (desc, res, must_reject, burn_tx): (String, R<Vec<Ev>>, bool, bool) = match op {
                TokOp::Advance { secs } => {
                    w.advance(*secs as u64);
                    let now = block(&w);
                    if m.allow.values().any(|(a, e)| *a > 0 && !e.is_expired(&blk) && e.is_expired(&now)) {
                        crossed_expiry = true;
                    }
                    continue;
                }
                TokOp::AdvanceToExpiry { k, off } => {
                    let times: Vec<u64> = m
                        .allow
                        .values()
                        .filter_map(|(a, e)| match e {
                            Expiration::AtTime(t) if *a > 0 && t.seconds() > w.time => Some(t.seconds()),
                            _ => None,
                        })
                        .collect();
                    if !times.is_empty() {
                        let target = times[*k as usize % times.len()] as i128 + *off as i128;
                        if target > w.time as i128 {
                            w.advance((target - w.time as i128) as u64);
                            let now = block(&w);
                            if m.allow.values().any(|(a, e)| *a > 0 && !e.is_expired(&blk) && e.is_expired(&now)) {
                                crossed_expiry = true;
                            }
                            if *off == 0 {
                                out.label("clock_on_allowance_expiry_second");
                            }
                        }
                    }
                    continue;
                }
                TokOp::Transfer { from, to, k } => {
                    let (f, t) = (who(*from), who(*to));
                    let a = amount_for(m.bal.get(&f).copied().unwrap_or(0), *k);
                    let must = a > m.bal.get(&f).copied().unwrap_or(0);
                    if !must {
                        *m2.bal.entry(f.clone()).or_default() -= a;
                        *m2.bal.entry(t.clone()).or_default() += a;
                    }
                    (format!("{} transfers {} to {}", f, a, t), w.tx(&f, TOK, &Cw20ExecuteMsg::Transfer { recipient: t.clone(), amount: Uint128::new(a) }, &[]), must, false)
                }
                TokOp::Send { from, k } => {
                    let f = who(*from);
                    let a = amount_for(m.bal.get(&f).copied().unwrap_or(0), *k);
                    let must = a > m.bal.get(&f).copied().unwrap_or(0);
                    if !must {
                        *m2.bal.entry(f.clone()).or_default() -= a;
                        *m2.bal.entry(SINK.to_string()).or_default() += a;
                    }
                    (format!("{} sends {} to the sink", f, a), w.tx(&f, TOK, &Cw20ExecuteMsg::Send { contract: SINK.into(), amount: Uint128::new(a), msg: to_json_binary(&"x").unwrap() }, &[]), must, false)
                }
                TokOp::Mint { by, to, amount } => {
                    let (b, t) = (who(*by), who(*to));
                    let must = b != HUB;
                    if !must {
                        *m2.bal.entry(t.clone()).or_default() += amount.u128();
                        m2.supply += amount.u128();
                    }
                    (format!("{} mints {} to {}", b, amount, t), w.tx(&b, TOK, &Cw20ExecuteMsg::Mint { recipient: t.clone(), amount: *amount }, &[]), must, false)
                }
                TokOp::Burn { by, k } => {
                    let b = who(*by);
                    let a = amount_for(m.bal.get(&b).copied().unwrap_or(0), *k);
                    let must = b != HUB || a > m.bal.get(&b).copied().unwrap_or(0);
                    if !must {
                        *m2.bal.entry(b.clone()).or_default() -= a;
                        m2.supply -= a;
                    }
                    (format!("{} burns {}", b, a), w.tx(&b, TOK, &Cw20ExecuteMsg::Burn { amount: Uint128::new(a) }, &[]), must, c.stsei)
                }
                TokOp::IncAllow { owner, spender, k, exp } => {
                    let (o, s) = (who(*owner), who(*spender));
                    let a = amount_for(m.bal.get(&o).copied().unwrap_or(0).max(100), *k);
                    let e = to_exp(exp, &w);
                    let must = o == s;
                    if !must {
                        let cur = m2.allow.entry((o.clone(), s.clone())).or_insert((0, Expiration::Never {}));
                        cur.0 += a;
                        if let Some(e) = e {
                            cur.1 = e;
                        }
                    }
                    (format!("{} increases {}'s allowance by {} expiring {:?}", o, s, a, e), w.tx(&o, TOK, &Cw20ExecuteMsg::IncreaseAllowance { spender: s.clone(), amount: Uint128::new(a), expires: e }, &[]), must, false)
                }
                TokOp::DecAllow { owner, spender, k, exp } => {
                    let (o, s) = (who(*owner), who(*spender));
                    let cur = m.allow.get(&(o.clone(), s.clone())).cloned();
                    let a = amount_for(cur.map(|c| c.0).unwrap_or(0).max(4), *k);
                    let e = to_exp(exp, &w);
                    let must = o == s;
                    if !must {
                        if let Some(cur) = m2.allow.get_mut(&(o.clone(), s.clone())) {
                            if a < cur.0 {
                                cur.0 -= a;
                                if let Some(e) = e {
                                    cur.1 = e;
                                }
                            } else {
                                m2.allow.remove(&(o.clone(), s.clone()));
                                m2.allow.insert((o.clone(), s.clone()), (0, Expiration::Never {}));
                            }
                        }
                    }
                    (format!("{} decreases {}'s allowance by {}", o, s, a), w.tx(&o, TOK, &Cw20ExecuteMsg::DecreaseAllowance { spender: s.clone(), amount: Uint128::new(a), expires: e }, &[]), must, false)
                }
                TokOp::TransferFrom { spender, owner, k, .. } | TokOp::SendFrom { spender, owner, k, .. } | TokOp::BurnFrom { spender, owner, k, .. } => {
                    let (s, o) = (who(*spender), who(*owner));
                    let cur = m.allow.get(&(o.clone(), s.clone())).cloned();
                    let live = cur.map(|c| if c.1.is_expired(&blk) { 0 } else { c.0 }).unwrap_or(0);
                    let stored = cur.map(|c| c.0).unwrap_or(0);
                    let ob = m.bal.get(&o).copied().unwrap_or(0);
                    // amounts around the spendable part; for an expired allowance around what is still stored
                    // (exactly the stored remainder is the interesting request)
                    let base = if live == 0 && stored > 0 { stored.min(ob.max(1)) } else { live.min(ob) };
                    let a = amount_for(base.max(if *k >= 5 { live.max(ob) } else { 0 }), *k);
                    if live == 0 && stored > 0 && a == stored {
                        out.label("expired_allowance_spent_exactly");
                    }
                    let must = cur.is_none() || a > live || a > ob;
                    let (target, is_burn): (Option<String>, bool) = match op {
                        TokOp::TransferFrom { to, .. } => (Some(who(*to)), false),
                        TokOp::SendFrom { .. } => (Some(SINK.to_string()), false),
                        _ => (None, true),
                    };
                    if !must {
                        m2.allow.get_mut(&(o.clone(), s.clone())).unwrap().0 -= a;
                        *m2.bal.entry(o.clone()).or_default() -= a;
                        match &target {
                            Some(t) => *m2.bal.entry(t.clone()).or_default() += a,
                            None => m2.supply -= a,
                        }
                    }
                    let msg = match op {
                        TokOp::TransferFrom { .. } => Cw20ExecuteMsg::TransferFrom { owner: o.clone(), recipient: target.clone().unwrap(), amount: Uint128::new(a) },
                        TokOp::SendFrom { .. } => Cw20ExecuteMsg::SendFrom { owner: o.clone(), contract: SINK.into(), amount: Uint128::new(a), msg: to_json_binary(&"x").unwrap() },
                        _ => Cw20ExecuteMsg::BurnFrom { owner: o.clone(), amount: Uint128::new(a) },
                    };
                    (format!("{} moves {} of {}'s tokens ({:?}, live allowance {}, balance {})", s, a, o, op, live, ob), w.tx(&s, TOK, &msg, &[]), must, is_burn)
                }
                TokOp::UpdateMinter { by, to } => {
                    if !c.stsei {
                        continue;
                    }
                    let b = who(*by);
                    // only the current minter (the hub) could; the hub contract never sends this message, so the
                    // minter must stay the hub: any change by a principal other than the hub is a violation, and a
                    // change by the hub itself is outside what the hub can emit (skipped)
                    if b == HUB {
                        continue;
                    }
                    (format!("{} tries to change the minter", b), w.tx(&b, TOK, &cw20_base::msg::ExecuteMsg::UpdateMinter { new_minter: to.map(who) }, &[]), true, false)
                }
                TokOp::UpdateMarketing { by } => {
                    if !c.stsei {
                        continue;
                    }
                    let b = who(*by);
                    let r = w.tx(&b, TOK, &cw20_base::msg::ExecuteMsg::UpdateMarketing { project: Some("p".into()), description: None, marketing: None }, &[]);
                    (format!("{} updates marketing info", b), r, b != OWNER, false)
                }
            };
            match &res {
                Ok(evs) => {
                    if must_reject {
                        out.fail(v(
                            &format!("accepted-what-must-be-rejected/{}/{}", opname(op), if c.stsei { "stsei" } else { "bsei" }),
                            format!("{} step {}: {} was accepted", tname, idx, desc),
                        ));
                        return out;
                    }
                    m = m2;
                    if burn_tx {
                        // the hub refreshes its rates in the same transaction, after the burn
                        let pos_tok = evs.iter().position(|e| matches!(e, Ev::Exec { contract, .. } if contract == TOK));
                        let pos_cs = evs.iter().position(|e| matches!(e, Ev::Exec { contract, msg, .. } if contract == HUB && msg.starts_with("{\"check_slashing\"")));
                        if !(pos_tok.is_some() && pos_cs.is_some() && pos_cs > pos_tok) {
                            out.fail(v(
                                &format!("burn-without-slashing-check/{}/{}", opname(op), if c.stsei { "stsei" } else { "bsei" }),
                                format!("{} step {}: {} did not make the hub refresh its rates in the same transaction", tname, idx, desc),
                            ));
                            return out;
                        }
                        out.count("burns_with_slashing_check", 1);
                    }
                }
                Err(_) => {
                    rejected = true;
                    if !w.same_state(&pre) {
                        out.fail(v("rejected-operation-changed-state", format!("{} step {}: {} was rejected but state changed", tname, idx, desc)));
                        return out;
                    }
                    if !must_reject {
                        out.count("rejected_though_reference_accepts", 1);
                    }
                }
            }
            if let Some(x) = self.compare(&w, &m, &format!("{} after step {} ({} -> {})", tname, idx, desc, if res.is_ok() { "ok".to_string() } else { format!("{:?}", res.as_ref().err()) })) {
                out.fail(x);
                return out;
            }
        }
        out.nontrivial = crossed_expiry && rejected;
        if crossed_expiry {
            out.label("allowance_expiry_crossed");
        }
        if m.bal.values().filter(|b| **b > 0).count() > 30 {
            out.label("more_than_one_page_of_accounts");
        }
        out.label(if c.stsei { "stsei" } else { "bsei" });
        out
    }
}

fn opname(op: &TokOp) -> &'static str {
    match op {
        TokOp::Transfer { .. } => "transfer",
        TokOp::Send { .. } => "send",
        TokOp::Mint { .. } => "mint",
        TokOp::Burn { .. } => "burn",
        TokOp::IncAllow { .. } => "increase_allowance",
        TokOp::DecAllow { .. } => "decrease_allowance",
        TokOp::TransferFrom { .. } => "transfer_from",
        TokOp::SendFrom { .. } => "send_from",
        TokOp::BurnFrom { .. } => "burn_from",
        TokOp::Advance { .. } => "advance",
        TokOp::AdvanceToExpiry { .. } => "advance_to_expiry",
        TokOp::UpdateMinter { .. } => "update_minter",
        TokOp::UpdateMarketing { .. } => "update_marketing",
    }
}
