//! C14 — the bSei reward pool is solvent and complete.
use super::*;
use crate::chain::Ev;
use cosmwasm_std::Uint256;

pub struct C14 {
    updates: u128,
    claims: u64,
    delivered: u128,
    claimed: u128,
    balance_change_between_updates: bool,
    change_since_update: bool,
    max_holders: usize,
}

const ID: &str = "C14";

pub fn reward_profile(t: Tier) -> Profile {
    let mut p = Profile::base();
    p.only_bsei = false;
    p.bond = 12;
    p.unbond = 6;
    p.convert = 4;
    p.transfer = 10;
    p.send_sink = 2;
    p.allow = 2;
    p.transfer_from = 4;
    p.burn_from = 3;
    p.hook_from = 3;
    p.claim = 12;
    p.accrue = 12;
    p.update_index = 10;
    p.donate = 6;
    p.migrate = 4;
    p.withdraw = 2;
    p.advance = 4;
    p.slash = 1;
    p.registry = 0;
    p.params = 0;
    p.fake_hook = 0;
    p.direct = 1;
    p.prefix_bonds = 2..6;
    p.len = 8..50;
    long(p, t)
}

pub fn prop() -> HistProp {
    HistProp {
        id: ID,
        rule: "generated reward-focused histories: 2-6 holders plus contract holders, mints (bonds), burns (unbond / convert / allowance burn), transfers, allowance operations, claims with and without recipient, reward deliveries of all magnitudes through the full hub -> dispatcher -> reward path and as direct deposits, updates while nobody holds bSei; solvency inequalities and exact claim arithmetic after every step; non-trivial = >= 2 holders, >= 2 index updates, a balance change between updates and >= 1 successful claim; distinct by hash of the case",
        profile: reward_profile,
        cfgs: || {
            use proptest::strategy::Strategy;
            // the bSei reward coin must actually flow: no degenerate keeper rate 1
            cfg_strategy().prop_map(|mut c| {
                if c.keeper_rate.atomics() == ONE {
                    c.keeper_rate = Dec::new(ONE / 20);
                }
                c
            }).boxed()
        },
        quick: 6000,
        thorough: 40000,
        mk: |_, _, _| {
            Box::new(C14 { updates: 0, claims: 0, delivered: 0, claimed: 0, balance_change_between_updates: false, change_since_update: false, max_holders: 0 })
        },
        extra: Some((5, |t| {
            use proptest::strategy::Strategy;
            proptest::strategy::Union::new_weighted(vec![
                (5, reward_scenario_strategy(&reward_profile(t), cfg_strategy())),
                (1, many_accounts_scenario_strategy(&reward_profile(t), cfg_strategy())),
            ])
            .boxed()
        })),
        many_batches: 0,
        zero_arrival: 0,
    }
}

fn v(sig: &str, detail: String) -> Violation {
    Violation::new(ID, format!("{}/{}", ID, sig), detail)
}

/// exact decimal accrual of a holder in 1e-18 units: pending + (global - index) * balance
pub fn accrual_atomics(o: &Obs, a: &str) -> Uint256 {
    match o.reward.holders.get(a) {
        None => Uint256::zero(),
        Some(h) => {
            let g = o.reward.state.global_index.atomics().u128();
            Uint256::from(g.saturating_sub(h.index.atomics().u128())) * Uint256::from(h.balance.u128())
                + Uint256::from(h.pending_rewards.atomics().u128())
        }
    }
}

impl Checker for C14 {
    fn step(&mut self, cx: &StepCx, out: &mut CaseResult) {
        let (o0, o1, step) = (cx.o0, cx.o1, cx.step);
        let one = Uint256::from(ONE);
        // bookkeeping of flows
        for e in step.evs() {
            if let Ev::Bank { from, to, coins } = e {
                let k: u128 = coins.iter().filter(|c| c.denom == KUSD).map(|c| c.amount.u128()).sum();
                if to == REWARD {
                    self.delivered += k;
                }
                if from == REWARD {
                    self.claimed += k;
                }
            }
        }
        if let ROp::Donate { to, denom, amount } = &step.rop {
            if to == REWARD && denom == KUSD {
                self.delivered += amount;
            }
        }
        if o1.reward.state.global_index != o0.reward.state.global_index {
            self.updates += 1;
            if self.change_since_update {
                self.balance_change_between_updates = true;
            }
            self.change_since_update = false;
        }
        if o1.reward.state.total_balance != o0.reward.state.total_balance || o1.bsei.balances != o0.bsei.balances {
            self.change_since_update = true;
        }
        self.max_holders = self.max_holders.max(o1.reward.holders.values().filter(|h| !h.balance.is_zero()).count());
        // ---- claims: succeed iff accrued >= 1, pay exactly the integer part, keep the fraction
        if let ROp::Claim { user: u, to } = &step.rop {
            let before = accrual_atomics(o0, u);
            let whole = before / one;
            let reported = *o0.reward.accrued.get(u).unwrap_or(&0);
            if Uint256::from(reported) != whole {
                out.fail(v("accrued-query", format!("{}: AccruedRewards reports {} but pending + (global - index) x balance = {} e-18", step.desc(), reported, before)));
                return;
            }
            if step.ok() != (reported >= 1) {
                out.fail(v(
                    if step.ok() { "claim-succeeded-with-nothing-accrued" } else { "claim-failed-with-rewards-accrued" },
                    format!("{}: accrued reward {} ({} e-18), recorded balance {}, contract holds {}", step.desc(), reported, before, o0.reward.state.prev_reward_balance, o0.bank_of(REWARD, KUSD)),
                ));
                return;
            }
            if step.ok() {
                self.claims += 1;
                let rcpt = to.clone().unwrap_or(u.clone());
                let paid = bank_sent(step.evs(), REWARD, &rcpt, KUSD);
                let all_paid: u128 = step.evs().iter().map(|e| if let Ev::Bank { from, coins, .. } = e { if from == REWARD { coins.iter().map(|c| c.amount.u128()).sum() } else { 0 } } else { 0 }).sum();
                if paid != reported || all_paid != paid {
                    out.fail(v("claim-amount", format!("{}: paid {} to {} ({} in total), accrued {}", step.desc(), paid, rcpt, all_paid, reported)));
                    return;
                }
                let h1 = o1.reward.holders.get(u).cloned();
                let frac = before - whole * one;
                match h1 {
                    Some(h) if Uint256::from(h.pending_rewards.atomics().u128()) == frac && h.index == o1.reward.state.global_index => {}
                    other => {
                        out.fail(v("claim-fraction", format!("{}: fraction {} e-18 should stay pending, holder record {:?}", step.desc(), frac, other)));
                        return;
                    }
                }
                if o1.reward.state.prev_reward_balance.u128() + paid != o0.reward.state.prev_reward_balance.u128() {
                    out.fail(v("claim-recorded-balance", format!("{}: recorded balance {} -> {} after paying {}", step.desc(), o0.reward.state.prev_reward_balance, o1.reward.state.prev_reward_balance, paid)));
                    return;
                }
            }
        }
        // ---- solvency: sum of claimable <= recorded balance <= actual balance
        let sum: u128 = o1.reward.accrued.values().sum();
        let prev = o1.reward.state.prev_reward_balance.u128();
        let bank = o1.bank_of(REWARD, KUSD);
        if sum > prev || prev > bank {
            out.fail(v(
                "insolvent",
                format!("after {}: holders can claim {} in total, recorded reward balance {}, actual balance {}", step.desc(), sum, prev, bank),
            ));
            return;
        }
        // ---- completeness: nothing stranded beyond dust
        let holders = o1.reward.holders.values().filter(|h| !h.balance.is_zero() || !h.pending_rewards.is_zero() || !h.index.is_zero()).count() as u128;
        if prev - sum > self.updates + holders + 1 {
            out.fail(v(
                "stranded",
                format!("after {}: recorded reward balance {} but holders can claim only {} ({} index updates, {} holders)", step.desc(), prev, sum, self.updates, holders),
            ));
            return;
        }
        if self.claimed > self.delivered {
            out.fail(v("claimed-more-than-delivered", format!("after {}: claimed {} > delivered {}", step.desc(), self.claimed, self.delivered)));
            return;
        }
        if o0.reward.state.total_balance.is_zero() && matches!(step.rop, ROp::UpdateIndex { .. }) && step.ok() {
            out.label("update_with_no_holders");
        }
    }
    fn finish(&mut self, _cfg: &Cfg, _w: &World, _o: &Obs, out: &mut CaseResult) {
        out.nontrivial = self.max_holders >= 2 && self.updates >= 2 && self.balance_change_between_updates && self.claims >= 1;
        if self.claims >= 1 {
            out.label("claim_paid");
        }
        if self.updates >= 2 {
            out.label("two_or_more_updates");
        }
    }
}
