//! Total byte decoders (for libFuzzer): any byte string decodes to a valid case of each case type.
use crate::chain::StubMode;
use crate::deploy::*;
use crate::ops::*;
use cosmwasm_std::Uint128;

pub struct Rd<'a> {
    d: &'a [u8],
    i: usize,
}

impl<'a> Rd<'a> {
    pub fn new(d: &'a [u8]) -> Self {
        Rd { d, i: 0 }
    }
    pub fn left(&self) -> usize {
        self.d.len().saturating_sub(self.i)
    }
    pub fn u8(&mut self) -> u8 {
        let b = self.d.get(self.i).copied().unwrap_or(0);
        self.i += 1;
        b
    }
    pub fn bool(&mut self) -> bool {
        self.u8() & 1 == 1
    }
    pub fn u16(&mut self) -> u16 {
        u16::from_le_bytes([self.u8(), self.u8()])
    }
    pub fn u32(&mut self) -> u32 {
        u32::from_le_bytes([self.u8(), self.u8(), self.u8(), self.u8()])
    }
    pub fn u64(&mut self) -> u64 {
        (self.u32() as u64) << 32 | self.u32() as u64
    }
    /// magnitude-class amount up to 10^18
    pub fn amount(&mut self) -> u128 {
        let c = self.u8() % 8;
        let m = self.u32() as u128;
        let v = match c {
            0 => 0,
            1 => 1 + m % 20,
            2 => 1 + m % 100_000,
            3 => (1 + m % 1000) * 1_000_000,
            4 => (1 + m % 1_000_000) * 1_000_000_000,
            5 => (1 + m % 1000) * 1_000_000_000_000_000,
            6 => m,
            _ => 1,
        };
        v.min(1_000_000_000_000_000_000)
    }
    pub fn dec_unit(&mut self) -> Dec {
        // a rate in [0, 1] with the interesting corners
        match self.u8() % 8 {
            0 => Dec::new(0),
            1 => Dec::new(1),
            2 => Dec::new(ONE / 20),
            3 => Dec::new(ONE / 2),
            4 => Dec::new(ONE - 1),
            5 => Dec::new(ONE),
            6 => Dec::new(ONE / 200),
            _ => Dec::new(self.u64() as u128 % (ONE + 1)),
        }
    }
    pub fn price(&mut self) -> Dec {
        let m = 1 + self.u16() as u128 % 999;
        let e = (self.u8() % 19) as u32; // 0..18  => 10^(e-9)
        Dec::new(m * 10u128.pow(7 + e))
    }
}

fn amt(r: &mut Rd) -> Amt {
    Amt { class: r.u8() % 11, mant: r.u32() }
}

pub fn decode_cfg(r: &mut Rd) -> Cfg {
    let nb = r.u8();
    let n_vals = if nb % 16 == 15 { 6 + (nb / 16) % 25 } else { 1 + nb % 5 };
    let rb = r.u8();
    let n_reg = if rb % 4 == 0 { n_vals } else { 1 + (rb / 4) % n_vals };
    Cfg {
        n_vals,
        n_reg,
        n_users: 2 + r.u8() % 5,
        fee: r.dec_unit(),
        threshold: {
            let t = r.dec_unit();
            if t.atomics() < ONE / 2 && r.bool() {
                Dec::new(ONE)
            } else {
                t
            }
        },
        keeper_rate: r.dec_unit(),
        epoch: [1u64, 5, 30, 1000][(r.u8() % 4) as usize],
        unbonding: [1u64, 10, 1000, 1000][(r.u8() % 4) as usize],
        price: if r.bool() { Dec::new(ONE) } else { r.price() },
    }
}

pub fn decode_op(r: &mut Rd) -> Op {
    let clock = |r: &mut Rd| match r.u8() % 6 {
        0 => Clock::Secs(1 + r.u16() % 2000),
        1 => Clock::Secs(1 + (r.u8() % 3) as u16),
        2 => Clock::Epoch((r.u8() % 4) as i8 - 1),
        3 => Clock::Unbond((r.u8() % 3) as i8 - 1),
        4 => Clock::UnbondYoungest((r.u8() % 3) as i8 - 1),
        _ => Clock::Long,
    };
    match r.u8() % 32 {
        0 | 1 | 2 => Op::Bond { u: r.u8() % 6, st: r.bool(), amt: amt(r) },
        3 | 4 | 5 => Op::Unbond { u: r.u8() % 6, st: r.bool(), frac: r.u16() },
        6 | 7 => Op::Convert { u: r.u8() % 6, st: r.bool(), frac: r.u16() },
        8 => Op::HookFrom { owner: r.u8() % 6, spender: r.u8() % 6, st: r.bool(), frac: r.u16(), convert: r.bool() },
        9 | 10 | 11 => Op::Withdraw { u: r.u8() % 6 },
        12 => Op::Transfer { u: r.u8() % 6, to: r.u8() % 60, st: r.bool(), frac: r.u16() },
        13 => Op::SendSink { u: r.u8() % 6, st: r.bool(), frac: r.u16() },
        14 => Op::Allow { u: r.u8() % 6, spender: r.u8() % 6, st: r.bool(), frac: r.u16(), exp: r.u8() % 5 },
        15 => Op::TransferFrom { owner: r.u8() % 6, spender: r.u8() % 6, to: r.u8() % 60, st: r.bool(), frac: r.u16() },
        16 => Op::BurnFrom { owner: r.u8() % 6, spender: r.u8() % 6, st: r.bool(), frac: r.u16() },
        17 => Op::Claim { u: r.u8() % 8, to: if r.bool() { Some(r.u8() % 6) } else { None } },
        18 | 19 => Op::Accrue { v: r.u8() % 5, coin: r.u8() % 5, amt: amt(r) },
        20 | 21 => Op::UpdateIndex { by: if r.u8() % 6 == 0 { 1 + r.u8() % 3 } else { 0 } },
        22 => {
            let b = r.u8();
            if b % 8 == 7 { Op::Migrate { c: (b / 8) % 5 } } else if b % 8 == 6 { Op::Reconfig { c: (b / 8) % 8 } } else { Op::CheckSlashing { u: b % 6 } }
        }
        23 | 24 | 25 | 26 => Op::Advance { clock: clock(r) },
        27 | 28 => {
            let b = r.u8();
            let pm = r.u16();
            Op::Slash { v: if b % 8 == 7 { 255 } else { b % 5 }, permille: if pm % 5 == 4 { [1u16, 10, 100, 500][(pm / 5) as usize % 4] } else { 1 + pm % 500 }, unbonding: r.bool() }
        }
        29 => Op::Donate { to: r.u8() % 3, coin: r.u8() % 5, amt: amt(r) },
        30 => match r.u8() % 3 {
            0 => Op::AddVal { v: r.u8() % 5 },
            1 => Op::RemoveVal { v: r.u8() % 5 },
            _ => Op::Redelegations { v: r.u8() % 5, by: r.u8() % 6 },
        },
        _ => match r.u8() % 4 {
            0 => Op::BondBad { u: r.u8() % 6, st: r.bool(), kind: r.u8() % 4 },
            1 => Op::FakeHook { u: r.u8() % 6, via_fake20: r.bool(), convert: r.bool(), amt: Amt { class: r.u8() % 3, mant: r.u32() } },
            2 => Op::SetParams {
                epoch: if r.bool() { Some([1u64, 5, 30, 1000][(r.u8() % 4) as usize]) } else { None },
                fee: if r.bool() { Some(r.dec_unit()) } else { None },
                threshold: if r.bool() { Some(r.dec_unit()) } else { None },
            },
            _ => Op::DirectBurn { u: r.u8() % 6, st: r.bool(), frac: r.u16() },
        },
    }
}

pub fn decode_history(data: &[u8]) -> History {
    let mut r = Rd::new(data);
    let cfg = decode_cfg(&mut r);
    let mut ops = vec![];
    // a couple of bonds first so that most inputs reach interesting states quickly
    let nb = 1 + r.u8() % 3;
    for _ in 0..nb {
        ops.push(Op::Bond { u: r.u8() % 6, st: r.bool(), amt: amt(&mut r) });
    }
    while r.left() > 0 && ops.len() < 120 {
        ops.push(decode_op(&mut r));
    }
    History { cfg, ops }
}

pub fn decode_c12(data: &[u8]) -> crate::props::c12::Case {
    let mut r = Rd::new(data);
    let n = (r.u8() % 14) as usize;
    let order = r.u8() % 3;
    let aclass = r.u8() % 6;
    let mut held = vec![];
    for _ in 0..n {
        let v = match r.u8() % 5 {
            0 => 0,
            1 => (r.u8() % 5) as u128,
            2 => r.u16() as u128,
            3 => r.u64() as u128,
            _ => (r.u64() as u128) << 30,
        };
        held.push(Uint128::new(v));
    }
    let total: u128 = held.iter().map(|x| x.u128()).sum();
    let x = r.u64() as u128;
    let amount = match aclass {
        0 => 0,
        1 => 1,
        2 => total,
        3 => total + 1,
        4 => x % (total + 2),
        _ => x,
    };
    crate::props::c12::Case { held, amount: Uint128::new(amount), order, system: None }
}

pub fn decode_c17(data: &[u8]) -> crate::props::c17::Case {
    let mut r = Rd::new(data);
    crate::props::c17::Case {
        keeper_rate: r.dec_unit(),
        price: if r.bool() { Dec::new(ONE) } else { r.price() },
        bal_st: Uint128::new(r.amount()),
        bal_b: Uint128::new(r.amount()),
        bal_third: Uint128::new(if r.u8() % 4 == 0 { r.amount() } else { 0 }),
        bal_junk: Uint128::new(if r.u8() % 4 == 0 { r.amount() } else { 0 }),
        bal_ibc: Uint128::new(if r.u8() % 3 == 0 { r.amount() } else { 0 }),
        bonded_b: Uint128::new(r.amount()),
        bonded_st: Uint128::new(r.amount()),
        rate_updates: {
            let k = r.u8() % 3;
            (0..k).map(|_| if r.u8() % 4 == 0 { Dec::new(ONE + 1 + r.u32() as u128) } else { r.dec_unit() }).collect()
        },
        denom_updates: {
            let k = r.u8() % 4;
            (0..k).map(|_| (r.u8() % 5, r.u8() % 4 != 0)).collect()
        },
    }
}

pub fn decode_c18(data: &[u8]) -> crate::props::c18::Case {
    use crate::props::c18::{Exp, TokOp};
    let mut r = Rd::new(data);
    let stsei = r.bool();
    let ni = r.u8() % 5;
    let mut initial = vec![];
    for _ in 0..ni {
        {
            let b = r.u8();
            initial.push((if b % 16 == 15 { 200 + (b / 16) % 8 } else { b % 8 }, Uint128::new(r.amount() % 1_000_000_000_000)));
        }
    }
    let exp = |r: &mut Rd| match r.u8() % 4 {
        0 => Exp::None,
        1 => Exp::Never,
        2 => Exp::Height(r.u8() % 4),
        _ => Exp::Time(r.u8() % 60),
    };
    let mut ops = vec![];
    while r.left() > 0 && ops.len() < 60 {
        let op = match r.u8() % 12 {
            0 | 1 => TokOp::Transfer { from: r.u8() % 5, to: r.u8() % 8, k: r.u8() % 8 },
            2 => TokOp::Send { from: r.u8() % 5, k: r.u8() % 8 },
            3 => TokOp::Mint { by: r.u8() % 8, to: r.u8() % 8, amount: Uint128::new(r.amount() % 1_000_000_000_000) },
            4 => TokOp::Burn { by: r.u8() % 8, k: r.u8() % 8 },
            5 | 6 => TokOp::IncAllow { owner: r.u8() % 5, spender: r.u8() % 8, k: r.u8() % 8, exp: exp(&mut r) },
            7 => TokOp::DecAllow { owner: r.u8() % 5, spender: r.u8() % 8, k: r.u8() % 8, exp: exp(&mut r) },
            8 => TokOp::TransferFrom { spender: r.u8() % 8, owner: r.u8() % 5, to: r.u8() % 8, k: r.u8() % 8 },
            9 => TokOp::SendFrom { spender: r.u8() % 8, owner: r.u8() % 5, k: r.u8() % 8 },
            10 => TokOp::BurnFrom { spender: r.u8() % 8, owner: r.u8() % 5, k: r.u8() % 8 },
            _ => {
                let b = r.u8();
                if b % 4 == 3 { TokOp::AdvanceToExpiry { k: b / 4, off: (r.u8() % 3) as i8 - 1 } } else { TokOp::Advance { secs: b % 70 } }
            }
        };
        ops.push(op);
    }
    crate::props::c18::Case { stsei, name: "token".into(), symbol: "TOKEN".into(), decimals: 6, initial, ops }
}

pub fn stub_mode(b: u8) -> StubMode {
    match b % 3 {
        0 => StubMode::Ok,
        1 => StubMode::Fail,
        _ => StubMode::Garbage,
    }
}
