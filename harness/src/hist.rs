//! Running a generated history against the real contracts with a per-property checker attached.
use crate::chain::*;
use crate::deploy::*;
use crate::obs::*;
use crate::ops::*;
use crate::runner::*;

pub struct StepCx<'a> {
    pub cfg: &'a Cfg,
    /// world before / after the step (after a failed tx they are equal)
    pub pre: &'a World,
    pub post: &'a World,
    pub o0: &'a Obs,
    pub o1: &'a Obs,
    pub step: &'a Step,
    pub idx: usize,
}

pub trait Checker {
    fn step(&mut self, cx: &StepCx, out: &mut CaseResult);
    fn finish(&mut self, _cfg: &Cfg, _w: &World, _o: &Obs, _out: &mut CaseResult) {}
}

pub fn infrastructure_abort(what: &str) -> ! {
    eprintln!("INFRASTRUCTURE: {}", what);
    std::process::exit(2)
}

/// Execute the history from a fresh deployment. The checker sees every resolved step with full
/// before/after observations; the run stops at the first violation.
pub fn run_history<C: Checker>(
    h: &History,
    lenient_zero_send: bool,
    mk: impl FnOnce(&Cfg, &World, &Obs) -> C,
) -> CaseResult {
    let mut out = CaseResult::default();
    let cfg = &h.cfg;
    let mut w = deploy(cfg);
    w.lenient_zero_send = lenient_zero_send;
    let mut it = Interp::new(cfg);
    let mut o0 = observe(&w, cfg);
    let mut ck = mk(cfg, &w, &o0);
    let mut idx = 0usize;
    'outer: for op in &h.ops {
        // composite ops are resolved one transaction at a time, against the current world
        let n = it.resolve(&w, op).len();
        for k in 0..n {
            let rops = it.resolve(&w, op);
            let rop = match rops.get(k) {
                Some(r) => r.clone(),
                None => break,
            };
            if k > 0 && matches!(rop, ROp::Noop(_)) {
                break;
            }
            let pre = w.clone();
            let step = it.exec(&mut w, &rop);
            if let Some(u) = &w.unsupported {
                infrastructure_abort(&format!("the contracts emitted something the simulator does not implement: {}", u));
            }
            w.trace.clear();
            let o1 = observe(&w, cfg);
            out.work += 1;
            if matches!(step.rop, ROp::Noop(_)) {
                out.count("noop_ops", 1);
            } else {
                out.count(&format!("op/{}/{}", step.rop.name(), if step.ok() { "ok" } else { "err" }), 1);
            }
            if let Err(e) = &step.res {
                if let Some(i) = e.find("PANIC") {
                    out.count("contract_panics", 1);
                    let msg: String = e[i..].chars().take(70).collect();
                    out.count(&format!("contract_panic/{}/{}", step.rop.name(), msg), 1);
                }
            }
            {
                let cx = StepCx { cfg, pre: &pre, post: &w, o0: &o0, o1: &o1, step: &step, idx };
                ck.step(&cx, &mut out);
            }
            idx += 1;
            o0 = o1;
            if !out.violations.is_empty() {
                break 'outer;
            }
        }
    }
    if out.violations.is_empty() {
        ck.finish(cfg, &w, &o0, &mut out);
    }
    out
}

/// Human-readable transcript of a history (used by `krpv <ID> --show <replay>`).
pub fn transcript(h: &History, lenient_zero_send: bool) -> Vec<String> {
    let cfg = &h.cfg;
    let mut w = deploy(cfg);
    w.lenient_zero_send = lenient_zero_send;
    let mut it = Interp::new(cfg);
    let mut lines = vec![format!("cfg {:?}", cfg)];
    for op in &h.ops {
        let n = it.resolve(&w, op).len();
        for k in 0..n {
            let rops = it.resolve(&w, op);
            let rop = match rops.get(k) {
                Some(r) => r.clone(),
                None => break,
            };
            let step = it.exec(&mut w, &rop);
            let s = hub_state(&w);
            lines.push(format!(
                "t={} {} | bond_b {} bond_st {} r_b {} r_st {} hub_bal {} delegated {}",
                w.time,
                step.desc(),
                s.total_bond_bsei_amount,
                s.total_bond_stsei_amount,
                s.bsei_exchange_rate,
                s.stsei_exchange_rate,
                w.balance(HUB, USEI),
                w.delegated(HUB)
            ));
            w.trace.clear();
        }
    }
    lines
}

// -------- helpers over trace slices

pub fn sum_delegate(evs: &[Ev], delegator: &str) -> u128 {
    evs.iter().map(|e| if let Ev::Delegate { delegator: d, amount, .. } = e { if d == delegator { *amount } else { 0 } } else { 0 }).sum()
}
pub fn sum_undelegate(evs: &[Ev], delegator: &str) -> u128 {
    evs.iter().map(|e| if let Ev::Undelegate { delegator: d, amount, .. } = e { if d == delegator { *amount } else { 0 } } else { 0 }).sum()
}
pub fn sum_redelegate(evs: &[Ev], delegator: &str) -> u128 {
    evs.iter().map(|e| if let Ev::Redelegate { delegator: d, amount, .. } = e { if d == delegator { *amount } else { 0 } } else { 0 }).sum()
}
/// coins of `denom` sent by bank from `from` to `to`
pub fn bank_sent(evs: &[Ev], from: &str, to: &str, denom: &str) -> u128 {
    evs.iter()
        .map(|e| {
            if let Ev::Bank { from: f, to: t, coins } = e {
                if f == from && t == to {
                    return coins.iter().filter(|c| c.denom == denom).map(|c| c.amount.u128()).sum();
                }
            }
            0
        })
        .sum()
}
pub fn execs_to<'a>(evs: &'a [Ev], contract: &str) -> Vec<(&'a str, &'a str, &'a [cosmwasm_std::Coin])> {
    evs.iter()
        .filter_map(|e| {
            if let Ev::Exec { sender, contract: c, msg, funds } = e {
                if c == contract {
                    return Some((sender.as_str(), msg.as_str(), funds.as_slice()));
                }
            }
            None
        })
        .collect()
}
/// does the trace contain a hub execution that runs the slashing recognition and stores the state?
pub fn has_hub_pricing_exec(evs: &[Ev]) -> bool {
    execs_to(evs, HUB).iter().any(|(_, m, _)| {
        m.starts_with("{\"bond\"")
            || m.starts_with("{\"bond_for_st_sei\"")
            || m.starts_with("{\"bond_rewards\"")
            || m.starts_with("{\"receive\"")
            || m.starts_with("{\"check_slashing\"")
    })
}
