//! minichain — a small deterministic multi-contract chain simulator (DESIGN.md 3.1).
//!
//! Executes the *real* instantiate/execute/query entry points of the six contracts natively,
//! dispatches every message they emit depth-first with whole-transaction atomicity and answers their
//! queries from the live simulated state (bank, staking, distribution, wasm).
use cosmwasm_std::testing::MockApi;
use cosmwasm_std::{
    from_json, to_json_binary, Addr, BankMsg, BankQuery, Binary, BlockInfo, Coin, ContractInfo,
    ContractResult, CosmosMsg, Decimal, Deps, DepsMut, DistributionMsg, Empty, Env, Fraction,
    MessageInfo, Order, Querier, QuerierResult, QuerierWrapper, QueryRequest, Record, Response,
    StakingMsg, StakingQuery, Storage, SystemError, SystemResult, Timestamp, Uint128, WasmMsg,
    WasmQuery,
};
use serde::Serialize;
use std::collections::{BTreeMap, BTreeSet};
use std::panic::{catch_unwind, AssertUnwindSafe};

#[derive(Clone, Default, Debug, PartialEq)]
pub struct Store(pub BTreeMap<Vec<u8>, Vec<u8>>);

impl Storage for Store {
    fn get(&self, key: &[u8]) -> Option<Vec<u8>> {
        self.0.get(key).cloned()
    }
    fn range<'a>(
        &'a self,
        start: Option<&[u8]>,
        end: Option<&[u8]>,
        order: Order,
    ) -> Box<dyn Iterator<Item = Record> + 'a> {
        use std::ops::Bound;
        let s = start.map_or(Bound::Unbounded, |x| Bound::Included(x.to_vec()));
        let e = end.map_or(Bound::Unbounded, |x| Bound::Excluded(x.to_vec()));
        if let (Bound::Included(a), Bound::Excluded(b)) = (&s, &e) {
            if a >= b {
                return Box::new(std::iter::empty());
            }
        }
        let it = self.0.range((s, e)).map(|(k, v)| (k.clone(), v.clone()));
        match order {
            Order::Ascending => Box::new(it),
            Order::Descending => Box::new(it.rev()),
        }
    }
    fn set(&mut self, key: &[u8], value: &[u8]) {
        self.0.insert(key.to_vec(), value.to_vec());
    }
    fn remove(&mut self, key: &[u8]) {
        self.0.remove(key);
    }
}

#[derive(Clone, Copy, Debug, PartialEq, Eq)]
pub enum Kind {
    Hub,
    Bsei,
    Stsei,
    Reward,
    Dispatcher,
    Registry,
    /// external swap contract stub
    Swap,
    /// external price oracle stub
    Oracle,
    /// a contract that accepts any execute message (cw20 Receive sink, airdrop stand-ins)
    Sink,
}

/// Behaviour of an external stub (swap / oracle).
#[derive(Clone, Copy, Debug, PartialEq, Eq, serde::Serialize, serde::Deserialize)]
pub enum StubMode {
    Ok,
    Fail,
    Garbage,
}

#[derive(Clone, Debug, PartialEq)]
pub struct Unbonding {
    pub delegator: String,
    pub validator: String,
    pub amount: u128,
    pub original: u128,
    pub completion: u64,
    /// harness tag (the hub batch id that was open when the entry was created)
    pub tag: u64,
}

#[derive(Clone, Debug, PartialEq)]
pub struct Redelegation {
    pub delegator: String,
    pub dst: String,
    pub completion: u64,
}

#[derive(Clone, Debug, PartialEq)]
pub enum Ev {
    Exec { sender: String, contract: String, msg: String, funds: Vec<Coin> },
    Bank { from: String, to: String, coins: Vec<Coin> },
    Delegate { delegator: String, validator: String, amount: u128 },
    Undelegate { delegator: String, validator: String, amount: u128 },
    Redelegate { delegator: String, src: String, dst: String, amount: u128 },
    WithdrawReward { delegator: String, validator: String, to: String, coins: Vec<Coin> },
    SetWithdrawAddr { delegator: String, addr: String },
    /// a zero-amount bank send that was skipped because the lenient switch is on (known finding)
    ZeroSend { from: String, to: String, denom: String },
    /// environment: an unbonding entry completed and its coins were credited
    Matured { delegator: String, validator: String, amount: u128, original: u128, tag: u64 },
}

#[derive(Clone, Debug)]
pub struct World {
    pub time: u64,
    pub height: u64,
    pub bond_denom: String,
    pub unbonding_time: u64,
    pub bank: BTreeMap<(String, String), u128>,
    pub contracts: BTreeMap<String, (Kind, Store)>,
    pub validators: BTreeSet<String>,
    pub delegations: BTreeMap<(String, String), u128>,
    pub unbondings: Vec<Unbonding>,
    pub redelegations: Vec<Redelegation>,
    pub rewards: BTreeMap<(String, String, String), u128>,
    pub withdraw_addr: BTreeMap<String, String>,
    /// price of 1 unit of the bond denom (stSei reward coin) in any other coin
    pub oracle_price: Decimal,
    pub swap_mode: StubMode,
    pub oracle_mode: StubMode,
    /// skip (and record) zero-amount bank sends instead of failing the transaction
    pub lenient_zero_send: bool,
    /// tag given to unbonding entries created from now on
    pub cur_tag: u64,
    pub trace: Vec<Ev>,
    /// set when the contracts emitted something the simulator does not implement
    pub unsupported: Option<String>,
    /// number of contract panics caught so far
    pub panics: u64,
}

pub type R<T> = Result<T, String>;

impl World {
    pub fn new(bond_denom: &str, unbonding_time: u64) -> Self {
        World {
            time: 1_700_000_000,
            height: 1,
            bond_denom: bond_denom.into(),
            unbonding_time,
            bank: Default::default(),
            contracts: Default::default(),
            validators: Default::default(),
            delegations: Default::default(),
            unbondings: vec![],
            redelegations: vec![],
            rewards: Default::default(),
            withdraw_addr: Default::default(),
            oracle_price: Decimal::one(),
            swap_mode: StubMode::Ok,
            oracle_mode: StubMode::Ok,
            lenient_zero_send: false,
            cur_tag: 0,
            trace: vec![],
            unsupported: None,
            panics: 0,
        }
    }

    /// Equality of everything a contract or user can observe (the trace and counters are excluded).
    pub fn same_state(&self, o: &World) -> bool {
        self.time == o.time
            && self.height == o.height
            && self.bank == o.bank
            && self.contracts == o.contracts
            && self.validators == o.validators
            && self.delegations == o.delegations
            && self.unbondings == o.unbondings
            && self.redelegations == o.redelegations
            && self.rewards == o.rewards
            && self.withdraw_addr == o.withdraw_addr
    }

    pub fn balance(&self, addr: &str, denom: &str) -> u128 {
        *self.bank.get(&(addr.to_string(), denom.to_string())).unwrap_or(&0)
    }
    pub fn mint(&mut self, addr: &str, denom: &str, amount: u128) {
        if amount > 0 {
            *self.bank.entry((addr.into(), denom.into())).or_default() += amount;
        }
    }
    pub fn burn_coins(&mut self, addr: &str, denom: &str, amount: u128) {
        let k = (addr.to_string(), denom.to_string());
        let have = *self.bank.get(&k).unwrap_or(&0);
        let left = have.saturating_sub(amount);
        if left == 0 {
            self.bank.remove(&k);
        } else {
            self.bank.insert(k, left);
        }
    }
    pub fn delegated(&self, delegator: &str) -> u128 {
        self.delegations.iter().filter(|((d, _), _)| d == delegator).map(|(_, a)| *a).sum()
    }
    pub fn delegation(&self, delegator: &str, validator: &str) -> u128 {
        *self.delegations.get(&(delegator.to_string(), validator.to_string())).unwrap_or(&0)
    }
    pub fn pending_rewards(&self, delegator: &str) -> u128 {
        self.rewards.iter().filter(|((d, _, _), _)| d == delegator).map(|(_, a)| *a).sum()
    }

    fn bank_send(&mut self, from: &str, to: &str, coins: &[Coin]) -> R<()> {
        for c in coins {
            if c.amount.is_zero() {
                return Err(format!("bank: invalid coins: 0{} from {} to {}", c.denom, from, to));
            }
        }
        // duplicate denoms are invalid coins on the SDK
        for (i, c) in coins.iter().enumerate() {
            if coins[..i].iter().any(|d| d.denom == c.denom) {
                return Err(format!("bank: invalid coins: duplicate denom {}", c.denom));
            }
        }
        for c in coins {
            let k = (from.to_string(), c.denom.clone());
            let have = *self.bank.get(&k).unwrap_or(&0);
            if have < c.amount.u128() {
                return Err(format!("bank: insufficient funds {} < {}{}", have, c.amount, c.denom));
            }
            if have == c.amount.u128() {
                self.bank.remove(&k);
            } else {
                self.bank.insert(k, have - c.amount.u128());
            }
            *self.bank.entry((to.into(), c.denom.clone())).or_default() += c.amount.u128();
        }
        if !coins.is_empty() {
            self.trace.push(Ev::Bank { from: from.into(), to: to.into(), coins: coins.to_vec() });
        }
        Ok(())
    }

    /// Environment event: move the clock; matured unbonding entries are credited before anything else
    /// executes at the new block time (envelope E2a).
    pub fn advance(&mut self, secs: u64) {
        self.time += secs;
        self.height += 1;
        self.mature();
    }
    fn mature(&mut self) {
        let now = self.time;
        let (done, rest): (Vec<_>, Vec<_>) =
            self.unbondings.drain(..).partition(|u| u.completion <= now);
        self.unbondings = rest;
        let denom = self.bond_denom.clone();
        for u in done {
            self.mint(&u.delegator, &denom, u.amount);
            self.trace.push(Ev::Matured {
                delegator: u.delegator,
                validator: u.validator,
                amount: u.amount,
                original: u.original,
                tag: u.tag,
            });
        }
        self.redelegations.retain(|r| r.completion > now);
    }
    /// Environment event: slash a validator by num/den (rounding stake down).
    pub fn slash(&mut self, validator: &str, num: u128, den: u128, include_unbonding: bool) {
        for ((_, v), amt) in self.delegations.iter_mut() {
            if v == validator {
                *amt = *amt * (den - num) / den;
            }
        }
        // pending rewards of vanished delegations are dropped with them
        let gone: Vec<(String, String)> =
            self.delegations.iter().filter(|(_, a)| **a == 0).map(|(k, _)| k.clone()).collect();
        for (d, v) in gone {
            self.delegations.remove(&(d.clone(), v.clone()));
            self.rewards.retain(|(dd, vv, _), _| !(*dd == d && *vv == v));
        }
        if include_unbonding {
            for u in self.unbondings.iter_mut() {
                if u.validator == validator {
                    u.amount = u.amount * (den - num) / den;
                }
            }
        }
    }
    /// Environment event: staking rewards accrue for a delegation.
    pub fn accrue(&mut self, delegator: &str, validator: &str, denom: &str, amount: u128) -> bool {
        if amount > 0 && self.delegations.contains_key(&(delegator.to_string(), validator.to_string())) {
            *self.rewards.entry((delegator.into(), validator.into(), denom.into())).or_default() += amount;
            true
        } else {
            false
        }
    }
    fn withdraw_rewards(&mut self, delegator: &str, validator: &str) {
        let keys: Vec<_> = self
            .rewards
            .keys()
            .filter(|(d, v, _)| d == delegator && v == validator)
            .cloned()
            .collect();
        let to = self.withdraw_addr.get(delegator).cloned().unwrap_or(delegator.to_string());
        let mut coins = vec![];
        for k in keys {
            let amt = self.rewards.remove(&k).unwrap();
            if amt > 0 {
                self.mint(&to, &k.2, amt);
                coins.push(Coin::new(amt, k.2));
            }
        }
        self.trace.push(Ev::WithdrawReward {
            delegator: delegator.into(),
            validator: validator.into(),
            to,
            coins,
        });
    }

    fn env(&self, contract: &str) -> Env {
        Env {
            block: BlockInfo {
                height: self.height,
                time: Timestamp::from_seconds(self.time),
                chain_id: "minichain".into(),
            },
            transaction: None,
            contract: ContractInfo { address: Addr::unchecked(contract) },
        }
    }

    /// Top-level transaction: atomic. Returns the slice of the trace it produced.
    pub fn tx<M: Serialize>(&mut self, sender: &str, contract: &str, msg: &M, funds: &[Coin]) -> R<Vec<Ev>> {
        let bin = to_json_binary(msg).map_err(|e| e.to_string())?;
        self.tx_raw(sender, contract, bin, funds)
    }
    pub fn tx_raw(&mut self, sender: &str, contract: &str, bin: Binary, funds: &[Coin]) -> R<Vec<Ev>> {
        let snapshot = self.clone();
        let t0 = self.trace.len();
        match self.exec_wasm(sender, contract, bin, funds.to_vec(), 0) {
            Ok(()) => Ok(self.trace[t0..].to_vec()),
            Err(e) => {
                let (uns, pan) = (self.unsupported.clone(), self.panics);
                *self = snapshot;
                self.unsupported = uns;
                self.panics = pan;
                Err(e)
            }
        }
    }

    /// Handler-level execution on a scratch copy: the addressed contract's `execute` runs with the funds
    /// delivered, the messages it returns are *not* dispatched. Answers "did the handler itself accept?".
    pub fn handler_accepts(&self, sender: &str, contract: &str, bin: Binary, funds: &[Coin]) -> R<usize> {
        let mut w = self.clone();
        let kind = w.contracts.get(contract).ok_or(format!("no such contract {}", contract))?.0;
        w.bank_send(sender, contract, funds)?;
        match kind {
            Kind::Swap | Kind::Oracle | Kind::Sink => return Err("stub".into()),
            _ => {}
        }
        let resp = w.call(kind, contract, sender, funds.to_vec(), Call::Execute(bin))?;
        Ok(resp.messages.len())
    }

    /// The chain admin migrates a contract to the same code: its `migrate` entry point runs (atomic).
    pub fn migrate(&mut self, contract: &str, msg: Binary) -> R<Vec<Ev>> {
        let snapshot = self.clone();
        let t0 = self.trace.len();
        let kind = self.contracts.get(contract).ok_or(format!("no such contract {}", contract))?.0;
        let r = (|| -> R<()> {
            let resp = self.call(kind, contract, "chainadmin", vec![], Call::Migrate(msg.clone()))?;
            for sm in resp.messages {
                self.dispatch(contract, sm.msg, 1)?;
            }
            Ok(())
        })();
        match r {
            Ok(()) => Ok(self.trace[t0..].to_vec()),
            Err(e) => {
                let (uns, pan) = (self.unsupported.clone(), self.panics);
                *self = snapshot;
                self.unsupported = uns;
                self.panics = pan;
                Err(e)
            }
        }
    }

    pub fn register_stub(&mut self, kind: Kind, addr: &str) {
        self.contracts.insert(addr.to_string(), (kind, Store::default()));
    }

    pub fn instantiate<M: Serialize>(&mut self, kind: Kind, sender: &str, addr: &str, msg: &M) -> R<()> {
        let snapshot = self.clone();
        if self.contracts.contains_key(addr) {
            return Err("instantiate: address in use".into());
        }
        self.contracts.insert(addr.to_string(), (kind, Store::default()));
        let bin = to_json_binary(msg).map_err(|e| e.to_string())?;
        let r = self.call(kind, addr, sender, vec![], Call::Instantiate(bin));
        let restore = |me: &mut World, snapshot: World| {
            let (uns, pan) = (me.unsupported.clone(), me.panics);
            *me = snapshot;
            me.unsupported = uns;
            me.panics = pan;
        };
        match r {
            Ok(resp) => {
                for sm in resp.messages {
                    if let Err(e) = self.dispatch(addr, sm.msg, 1) {
                        restore(self, snapshot);
                        return Err(e);
                    }
                }
                Ok(())
            }
            Err(e) => {
                restore(self, snapshot);
                Err(e)
            }
        }
    }

    fn call(&mut self, kind: Kind, addr: &str, sender: &str, funds: Vec<Coin>, call: Call) -> R<Response> {
        let mut storage = self.contracts.get(addr).ok_or("no such contract")?.1.clone();
        let env = self.env(addr);
        let info = MessageInfo { sender: Addr::unchecked(sender), funds };
        let api = MockApi::default();
        let res = {
            let q = WorldQuerier { w: &*self };
            let deps = DepsMut { storage: &mut storage, api: &api, querier: QuerierWrapper::new(&q) };
            catch_unwind(AssertUnwindSafe(|| run(kind, deps, env, info, call)))
        };
        match res {
            Ok(Ok(resp)) => {
                self.contracts.get_mut(addr).unwrap().1 = storage;
                Ok(resp)
            }
            Ok(Err(e)) => Err(format!("{}: {}", addr, e)),
            Err(p) => {
                self.panics += 1;
                let s = p
                    .downcast_ref::<String>()
                    .cloned()
                    .or_else(|| p.downcast_ref::<&str>().map(|s| s.to_string()))
                    .unwrap_or_default();
                Err(format!("{}: PANIC {}", addr, s))
            }
        }
    }

    fn unsupported<T>(&mut self, what: String) -> R<T> {
        self.unsupported = Some(what.clone());
        Err(format!("UNSUPPORTED {}", what))
    }

    fn exec_wasm(&mut self, sender: &str, contract: &str, msg: Binary, funds: Vec<Coin>, depth: u32) -> R<()> {
        if depth > 16 {
            return Err("call depth exceeded".into());
        }
        let kind = self.contracts.get(contract).ok_or(format!("no such contract {}", contract))?.0;
        self.bank_send(sender, contract, &funds)?;
        self.trace.push(Ev::Exec {
            sender: sender.into(),
            contract: contract.into(),
            msg: String::from_utf8_lossy(msg.as_slice()).to_string(),
            funds: funds.clone(),
        });
        match kind {
            Kind::Swap => return self.swap_exec(sender, contract, msg, funds),
            Kind::Oracle => return Err("oracle has no execute".into()),
            Kind::Sink => return Ok(()),
            _ => {}
        }
        let resp = self.call(kind, contract, sender, funds, Call::Execute(msg))?;
        for sm in resp.messages {
            if sm.reply_on != cosmwasm_std::ReplyOn::Never {
                return self.unsupported("reply_on".into());
            }
            self.dispatch(contract, sm.msg, depth + 1)?;
        }
        Ok(())
    }

    fn swap_exec(&mut self, sender: &str, me: &str, msg: Binary, funds: Vec<Coin>) -> R<()> {
        use basset::swap_ext::SwapExecteMsg;
        match self.swap_mode {
            StubMode::Ok => {}
            StubMode::Fail | StubMode::Garbage => return Err("swap: stub failure".into()),
        }
        let SwapExecteMsg::SwapDenom { from_coin, target_denom, to_address } =
            from_json(&msg).map_err(|e| e.to_string())?;
        if funds.len() != 1 || funds[0] != from_coin {
            return Err("swap: funds mismatch".into());
        }
        let out = self.swap_quote(&from_coin, &target_denom)?;
        let to = to_address.unwrap_or(sender.to_string());
        if out > 0 {
            self.mint(me, &target_denom, out);
            self.bank_send(me, &to, &[Coin::new(out, target_denom)])?;
        }
        Ok(())
    }
    /// The swap stub's price function (E5): 1 bond-denom unit = oracle_price units of any other coin,
    /// other pairs 1:1, rounding down.
    pub fn swap_quote(&self, from: &Coin, target: &str) -> R<u128> {
        if from.denom == target {
            return Ok(from.amount.u128());
        }
        if from.denom == self.bond_denom {
            Ok(from.amount.checked_mul_floor(self.oracle_price).map_err(|e| e.to_string())?.u128())
        } else if target == self.bond_denom {
            let inv = self.oracle_price.inv().ok_or("swap: zero price")?;
            Ok(from.amount.checked_mul_floor(inv).map_err(|e| e.to_string())?.u128())
        } else {
            Ok(from.amount.u128())
        }
    }

    fn dispatch(&mut self, from: &str, msg: CosmosMsg, depth: u32) -> R<()> {
        match msg {
            CosmosMsg::Bank(BankMsg::Send { to_address, amount }) => {
                if amount.is_empty() {
                    return Err("bank: invalid coins: empty".into());
                }
                if self.lenient_zero_send && amount.iter().any(|c| c.amount.is_zero()) {
                    for c in amount.iter().filter(|c| c.amount.is_zero()) {
                        self.trace.push(Ev::ZeroSend {
                            from: from.into(),
                            to: to_address.clone(),
                            denom: c.denom.clone(),
                        });
                    }
                    let nz: Vec<Coin> = amount.into_iter().filter(|c| !c.amount.is_zero()).collect();
                    return self.bank_send(from, &to_address, &nz);
                }
                self.bank_send(from, &to_address, &amount)
            }
            CosmosMsg::Bank(m) => self.unsupported(format!("bank msg {:?}", m)),
            CosmosMsg::Wasm(WasmMsg::Execute { contract_addr, msg, funds }) => {
                self.exec_wasm(from, &contract_addr, msg, funds, depth)
            }
            CosmosMsg::Wasm(m) => self.unsupported(format!("wasm msg {:?}", m)),
            CosmosMsg::Staking(StakingMsg::Delegate { validator, amount }) => {
                if amount.denom != self.bond_denom {
                    return Err("staking: wrong denom".into());
                }
                if amount.amount.is_zero() {
                    return Err("staking: zero delegation".into());
                }
                if !self.validators.contains(&validator) {
                    return Err(format!("staking: validator {} does not exist", validator));
                }
                let k = (from.to_string(), self.bond_denom.clone());
                let have = *self.bank.get(&k).unwrap_or(&0);
                if have < amount.amount.u128() {
                    return Err("staking: insufficient funds".into());
                }
                self.withdraw_rewards(from, &validator);
                if have == amount.amount.u128() {
                    self.bank.remove(&k);
                } else {
                    self.bank.insert(k, have - amount.amount.u128());
                }
                *self.delegations.entry((from.into(), validator.clone())).or_default() += amount.amount.u128();
                self.trace.push(Ev::Delegate { delegator: from.into(), validator, amount: amount.amount.u128() });
                Ok(())
            }
            CosmosMsg::Staking(StakingMsg::Undelegate { validator, amount }) => {
                if amount.denom != self.bond_denom || amount.amount.is_zero() {
                    return Err("staking: invalid undelegate".into());
                }
                let k = (from.to_string(), validator.clone());
                let have = *self.delegations.get(&k).unwrap_or(&0);
                if have < amount.amount.u128() {
                    return Err(format!(
                        "staking: undelegate {} exceeds delegation {} on {}",
                        amount.amount, have, validator
                    ));
                }
                self.withdraw_rewards(from, &validator);
                if have == amount.amount.u128() {
                    self.delegations.remove(&k);
                } else {
                    self.delegations.insert(k, have - amount.amount.u128());
                }
                self.unbondings.push(Unbonding {
                    delegator: from.into(),
                    validator: validator.clone(),
                    amount: amount.amount.u128(),
                    original: amount.amount.u128(),
                    completion: self.time + self.unbonding_time,
                    tag: self.cur_tag,
                });
                self.trace.push(Ev::Undelegate { delegator: from.into(), validator, amount: amount.amount.u128() });
                Ok(())
            }
            CosmosMsg::Staking(StakingMsg::Redelegate { src_validator, dst_validator, amount }) => {
                if amount.denom != self.bond_denom || amount.amount.is_zero() || src_validator == dst_validator {
                    return Err("staking: invalid redelegate".into());
                }
                if !self.validators.contains(&dst_validator) {
                    return Err("staking: dst validator does not exist".into());
                }
                if self.redelegations.iter().any(|r| r.delegator == from && r.dst == src_validator) {
                    return Err("staking: transitive redelegation".into());
                }
                let k = (from.to_string(), src_validator.clone());
                let have = *self.delegations.get(&k).unwrap_or(&0);
                if have < amount.amount.u128() {
                    return Err("staking: redelegate exceeds delegation".into());
                }
                self.withdraw_rewards(from, &src_validator);
                if self.delegations.contains_key(&(from.to_string(), dst_validator.clone())) {
                    self.withdraw_rewards(from, &dst_validator);
                }
                if have == amount.amount.u128() {
                    self.delegations.remove(&k);
                } else {
                    self.delegations.insert(k, have - amount.amount.u128());
                }
                *self.delegations.entry((from.into(), dst_validator.clone())).or_default() += amount.amount.u128();
                self.redelegations.push(Redelegation {
                    delegator: from.into(),
                    dst: dst_validator.clone(),
                    completion: self.time + self.unbonding_time,
                });
                self.trace.push(Ev::Redelegate {
                    delegator: from.into(),
                    src: src_validator,
                    dst: dst_validator,
                    amount: amount.amount.u128(),
                });
                Ok(())
            }
            CosmosMsg::Distribution(DistributionMsg::SetWithdrawAddress { address }) => {
                self.withdraw_addr.insert(from.into(), address.clone());
                self.trace.push(Ev::SetWithdrawAddr { delegator: from.into(), addr: address });
                Ok(())
            }
            CosmosMsg::Distribution(DistributionMsg::WithdrawDelegatorReward { validator }) => {
                if !self.delegations.contains_key(&(from.to_string(), validator.clone())) {
                    return Err("distribution: no delegation".into());
                }
                self.withdraw_rewards(from, &validator);
                Ok(())
            }
            other => self.unsupported(format!("msg {:?}", other)),
        }
    }

    pub fn query<M: Serialize, T: serde::de::DeserializeOwned>(&self, contract: &str, msg: &M) -> R<T> {
        let q = WorldQuerier { w: self };
        QuerierWrapper::<Empty>::new(&q).query_wasm_smart(contract, msg).map_err(|e| e.to_string())
    }

    fn query_contract(&self, contract: &str, msg: &Binary) -> R<Binary> {
        let (kind, storage) = self.contracts.get(contract).ok_or(format!("no such contract {}", contract))?;
        let api = MockApi::default();
        let q = WorldQuerier { w: self };
        let deps = Deps { storage, api: &api, querier: QuerierWrapper::new(&q) };
        let env = self.env(contract);
        let r = catch_unwind(AssertUnwindSafe(|| -> R<Binary> {
            let e = |x: cosmwasm_std::StdError| x.to_string();
            match kind {
                Kind::Hub => basset_sei_hub::contract::query(deps, env, from_json(msg).map_err(e)?).map_err(e),
                Kind::Bsei => basset_sei_token_bsei::contract::query(deps, env, from_json(msg).map_err(e)?).map_err(e),
                Kind::Stsei => basset_sei_token_stsei::contract::query(deps, env, from_json(msg).map_err(e)?).map_err(e),
                Kind::Reward => basset_sei_reward::contract::query(deps, env, from_json(msg).map_err(e)?).map_err(e),
                Kind::Dispatcher => {
                    basset_sei_rewards_dispatcher::contract::query(deps, env, from_json(msg).map_err(e)?).map_err(e)
                }
                Kind::Registry => {
                    basset_sei_validators_registry::contract::query(deps, env, from_json(msg).map_err(e)?).map_err(e)
                }
                Kind::Oracle => match self.oracle_mode {
                    StubMode::Ok => to_json_binary(&self.oracle_price).map_err(e),
                    StubMode::Fail => Err("oracle: stub failure".into()),
                    StubMode::Garbage => to_json_binary(&"garbage").map_err(e),
                },
                Kind::Sink => to_json_binary(&Empty {}).map_err(e),
                Kind::Swap => {
                    use basset::swap_ext::{SimulationResponse, SwapQueryMsg};
                    match self.swap_mode {
                        StubMode::Ok => {}
                        StubMode::Fail => return Err("swap: stub failure".into()),
                        StubMode::Garbage => return to_json_binary(&vec![1u8, 2, 3]).map_err(e),
                    }
                    match from_json::<SwapQueryMsg>(msg).map_err(e)? {
                        SwapQueryMsg::QuerySimulation { asset_infos, offer_asset } => {
                            let from = Coin::new(offer_asset.amount.u128(), offer_asset.info.to_string());
                            let out = self.swap_quote(&from, &asset_infos[1].to_string())?;
                            to_json_binary(&SimulationResponse {
                                return_amount: Uint128::new(out),
                                spread_amount: Uint128::zero(),
                                commission_amount: Uint128::zero(),
                            })
                            .map_err(e)
                        }
                        _ => Err("swap: unsupported query".into()),
                    }
                }
            }
        }));
        match r {
            Ok(x) => x,
            Err(_) => Err("PANIC in query".into()),
        }
    }
}

pub enum Call {
    Instantiate(Binary),
    Execute(Binary),
    /// the contract's `migrate` entry point (an upgrade to the same code)
    Migrate(Binary),
}

fn run(kind: Kind, deps: DepsMut, env: Env, info: MessageInfo, call: Call) -> R<Response> {
    macro_rules! go {
        ($m:path, $mig:expr) => {{
            use $m as c;
            match call {
                Call::Instantiate(b) => c::instantiate(deps, env, info, from_json(&b).map_err(|e| e.to_string())?)
                    .map_err(|e| e.to_string()),
                Call::Execute(b) => c::execute(deps, env, info, from_json(&b).map_err(|e| e.to_string())?)
                    .map_err(|e| e.to_string()),
                Call::Migrate(b) => $mig(deps, env, b),
            }
        }};
        ($m:path) => {{
            use $m as c2;
            go!($m, |d: DepsMut, e: Env, b: Binary| c2::migrate(d, e, from_json(&b).map_err(|e| e.to_string())?).map_err(|e| e.to_string()))
        }};
    }
    match kind {
        Kind::Hub => go!(basset_sei_hub::contract),
        Kind::Bsei => go!(basset_sei_token_bsei::contract),
        // the stSei token has no migrate entry point
        Kind::Stsei => go!(basset_sei_token_stsei::contract, |_d: DepsMut, _e: Env, _b: Binary| -> R<Response> { Err("no migrate entry point".into()) }),
        Kind::Reward => go!(basset_sei_reward::contract),
        Kind::Dispatcher => go!(basset_sei_rewards_dispatcher::contract),
        Kind::Registry => go!(basset_sei_validators_registry::contract),
        Kind::Swap | Kind::Oracle | Kind::Sink => Ok(Response::new()),
    }
}

pub struct WorldQuerier<'a> {
    pub w: &'a World,
}

impl<'a> Querier for WorldQuerier<'a> {
    fn raw_query(&self, bin_request: &[u8]) -> QuerierResult {
        let req: QueryRequest<Empty> = match from_json(bin_request) {
            Ok(r) => r,
            Err(e) => {
                return SystemResult::Err(SystemError::InvalidRequest {
                    error: e.to_string(),
                    request: bin_request.into(),
                })
            }
        };
        let w = self.w;
        let ok = |b: cosmwasm_std::StdResult<Binary>| SystemResult::Ok(ContractResult::from(b));
        match req {
            QueryRequest::Bank(BankQuery::Balance { address, denom }) => {
                #[derive(Serialize)]
                struct B {
                    amount: Coin,
                }
                ok(to_json_binary(&B { amount: Coin::new(w.balance(&address, &denom), denom) }))
            }
            QueryRequest::Bank(BankQuery::AllBalances { address }) => {
                #[derive(Serialize)]
                struct B {
                    amount: Vec<Coin>,
                }
                let v: Vec<Coin> = w
                    .bank
                    .iter()
                    .filter(|((a, _), amt)| *a == address && **amt > 0)
                    .map(|((_, d), amt)| Coin::new(*amt, d.clone()))
                    .collect();
                ok(to_json_binary(&B { amount: v }))
            }
            QueryRequest::Staking(StakingQuery::BondedDenom {}) => {
                #[derive(Serialize)]
                struct B {
                    denom: String,
                }
                ok(to_json_binary(&B { denom: w.bond_denom.clone() }))
            }
            QueryRequest::Staking(StakingQuery::AllDelegations { delegator }) => {
                #[derive(Serialize)]
                struct D {
                    delegator: String,
                    validator: String,
                    amount: Coin,
                }
                #[derive(Serialize)]
                struct B {
                    delegations: Vec<D>,
                }
                let v = w
                    .delegations
                    .iter()
                    .filter(|((d, _), _)| *d == delegator)
                    .map(|((d, v), a)| D {
                        delegator: d.clone(),
                        validator: v.clone(),
                        amount: Coin::new(*a, w.bond_denom.clone()),
                    })
                    .collect();
                ok(to_json_binary(&B { delegations: v }))
            }
            QueryRequest::Staking(StakingQuery::Delegation { delegator, validator }) => {
                #[derive(Serialize)]
                struct D {
                    delegator: String,
                    validator: String,
                    amount: Coin,
                    can_redelegate: Coin,
                    accumulated_rewards: Vec<Coin>,
                }
                #[derive(Serialize)]
                struct B {
                    delegation: Option<D>,
                }
                let d = w.delegations.get(&(delegator.clone(), validator.clone())).map(|a| {
                    let blocked = w.redelegations.iter().any(|r| r.delegator == delegator && r.dst == validator);
                    let rewards = w
                        .rewards
                        .iter()
                        .filter(|((d, v, _), a)| *d == delegator && *v == validator && **a > 0)
                        .map(|((_, _, den), a)| Coin::new(*a, den.clone()))
                        .collect();
                    D {
                        delegator: delegator.clone(),
                        validator: validator.clone(),
                        amount: Coin::new(*a, w.bond_denom.clone()),
                        can_redelegate: Coin::new(if blocked { 0 } else { *a }, w.bond_denom.clone()),
                        accumulated_rewards: rewards,
                    }
                });
                ok(to_json_binary(&B { delegation: d }))
            }
            QueryRequest::Wasm(WasmQuery::Smart { contract_addr, msg }) => {
                if !w.contracts.contains_key(&contract_addr) {
                    return SystemResult::Err(SystemError::NoSuchContract { addr: contract_addr });
                }
                match w.query_contract(&contract_addr, &msg) {
                    Ok(b) => SystemResult::Ok(ContractResult::Ok(b)),
                    Err(e) => SystemResult::Ok(ContractResult::Err(e)),
                }
            }
            other => SystemResult::Err(SystemError::UnsupportedRequest { kind: format!("{:?}", other) }),
        }
    }
}
