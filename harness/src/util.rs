//! Exact integer arithmetic used by the oracles (cosmwasm-std 256/512-bit integers; independent of the
//! repository's own `bignumber` package).
use cosmwasm_std::{Decimal, Uint128, Uint256, Uint512};

pub use crate::deploy::ONE;

pub fn u256(x: u128) -> Uint256 {
    Uint256::from(x)
}
pub fn to_u128(x: Uint256) -> u128 {
    Uint128::try_from(x).map(|v| v.u128()).unwrap_or(u128::MAX)
}
pub fn to_u128_512(x: Uint512) -> u128 {
    match Uint256::try_from(x) {
        Ok(v) => to_u128(v),
        Err(_) => u128::MAX,
    }
}

/// floor(a * r) for an 18-decimal rate
pub fn mul_floor(a: u128, r: Decimal) -> u128 {
    to_u128(u256(a) * u256(r.atomics().u128()) / u256(ONE))
}
/// floor(a / r) = floor(a * 10^18 / atomics(r)); u128::MAX when r = 0
pub fn div_floor(a: u128, r: Decimal) -> u128 {
    if r.is_zero() {
        return u128::MAX;
    }
    to_u128(u256(a) * u256(ONE) / u256(r.atomics().u128()))
}
/// the 18-decimal truncated ratio b / s, and 1 when either is zero (the hub's rate definition)
pub fn rate_of(b: u128, s: u128) -> Decimal {
    if b == 0 || s == 0 {
        Decimal::one()
    } else {
        Decimal::from_ratio(b, s)
    }
}
/// floor(a * b / c), c > 0
pub fn muldiv(a: u128, b: u128, c: u128) -> u128 {
    to_u128(u256(a) * u256(b) / u256(c))
}
/// ceil(a * b / c), c > 0
pub fn muldiv_ceil(a: u128, b: u128, c: u128) -> u128 {
    let n = u256(a) * u256(b);
    let q = n / u256(c);
    if q * u256(c) == n {
        to_u128(q)
    } else {
        to_u128(q) + 1
    }
}
pub fn dec_atomics(d: Decimal) -> u128 {
    d.atomics().u128()
}
pub fn absdiff(a: u128, b: u128) -> u128 {
    if a > b {
        a - b
    } else {
        b - a
    }
}
