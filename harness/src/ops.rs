//! Abstract operations, their proptest strategies and the interpreter (DESIGN.md 3.2).
use crate::chain::*;
use crate::deploy::*;
use crate::obs::*;
use basset::hub::{Cw20HookMsg, ExecuteMsg as HubExec};
use basset_sei_validators_registry::msg::ExecuteMsg as RegExec;
use cosmwasm_std::{to_json_binary, Coin, Uint128};
use cw20::{Cw20ExecuteMsg, Cw20ReceiveMsg, Expiration};
use proptest::prelude::*;
use proptest::strategy::Union;
use serde::{Deserialize, Serialize};

pub const E18: u128 = 1_000_000_000_000_000_000;

/// Magnitude-class amount: covers 1 .. 10^18 plus pool-relative sizes.
#[derive(Clone, Copy, Debug, PartialEq, Eq, Serialize, Deserialize)]
pub struct Amt {
    pub class: u8,
    pub mant: u32,
}

impl Amt {
    /// Resolve against a reference pool size (used by the pool-relative classes).
    pub fn resolve(&self, pool: u128) -> u128 {
        let m = self.mant as u128;
        let v = match self.class {
            0 => 1,
            1 => 1 + m % 1000,
            2 => (1 + m % 1000) * 1_000,
            3 => 1 + m * 1_000,
            4 => (1 + m % 1000) * 1_000_000_000_000,
            5 => (1 + m % 1000) * 1_000_000_000_000_000,
            6 => pool.saturating_mul(m % 2001) / 1000,
            7 => (pool + (m % 5)).saturating_sub(2),
            // log-uniform magnitude with all low bits populated (non-round values up to 2^60 > 10^18)
            9 => {
                let mut z = (m as u64).wrapping_add(0x9E37_79B9_7F4A_7C15);
                z = (z ^ (z >> 30)).wrapping_mul(0xBF58_476D_1CE4_E5B9);
                z = (z ^ (z >> 27)).wrapping_mul(0x94D0_49BB_1331_11EB);
                z ^= z >> 31;
                let e = (m % 60) as u32 + 1;
                let top = 1u128 << e;
                (top | (z as u128 & (top - 1))).min(E18 - (m % 7) as u128)
            }
            // the top decade of the envelope, non-round: 1e17 .. 5e17
            10 => {
                let mut z = (m as u64).wrapping_mul(0x9E37_79B9_7F4A_7C15) ^ 0xD1B5_4A32_D192_ED03;
                z = (z ^ (z >> 29)).wrapping_mul(0xBF58_476D_1CE4_E5B9);
                z ^= z >> 32;
                100_000_000_000_000_000 + (z as u128 % 400_000_000_000_000_000)
            }
            _ => 1 + m % 1_000_000,
        };
        v.clamp(1, E18)
    }
}

pub fn amt_strategy() -> BoxedStrategy<Amt> {
    prop_oneof![
        2 => Just(0u8), 3 => Just(1u8), 4 => Just(2u8), 3 => Just(3u8), 2 => Just(4u8), 1 => Just(5u8),
        2 => Just(6u8), 1 => Just(7u8), 2 => Just(8u8), 2 => Just(9u8), 1 => Just(10u8),
    ]
    .prop_flat_map(|class| (Just(class), any::<u32>()))
    .prop_map(|(class, mant)| Amt { class, mant })
    .boxed()
}

pub fn small_amt_strategy() -> BoxedStrategy<Amt> {
    prop_oneof![2 => Just(0u8), 3 => Just(1u8), 3 => Just(2u8), 2 => Just(8u8)]
        .prop_flat_map(|class| (Just(class), any::<u32>()))
        .prop_map(|(class, mant)| Amt { class, mant })
        .boxed()
}

#[derive(Clone, Copy, Debug, PartialEq, Eq, Serialize, Deserialize)]
pub enum Clock {
    /// plain seconds (1..)
    Secs(u16),
    /// to the epoch boundary (last undelegation + epoch_period) + offset
    Epoch(i8),
    /// to the unbonding boundary of the oldest unreleased batch + offset
    Unbond(i8),
    /// past everything: unbonding + epoch + 1
    Long,
    /// to the unbonding boundary of the *youngest* undelegated, unreleased batch + offset (older batches have then
    /// matured earlier without anybody withdrawing in between)
    UnbondYoungest(i8),
}

#[derive(Clone, Debug, PartialEq, Serialize, Deserialize)]
pub enum Op {
    Bond { u: u8, st: bool, amt: Amt },
    BondBad { u: u8, st: bool, kind: u8 },
    Unbond { u: u8, st: bool, frac: u16 },
    Convert { u: u8, st: bool, frac: u16 },
    /// allowance-based Send to the hub: owner grants exactly the amount, spender calls SendFrom
    HookFrom { owner: u8, spender: u8, st: bool, frac: u16, convert: bool },
    Withdraw { u: u8 },
    Transfer { u: u8, to: u8, st: bool, frac: u16 },
    SendSink { u: u8, st: bool, frac: u16 },
    Allow { u: u8, spender: u8, st: bool, frac: u16, exp: u8 },
    Disallow { u: u8, spender: u8, st: bool, frac: u16 },
    TransferFrom { owner: u8, spender: u8, to: u8, st: bool, frac: u16 },
    BurnFrom { owner: u8, spender: u8, st: bool, frac: u16 },
    DirectBurn { u: u8, st: bool, frac: u16 },
    DirectMint { u: u8, st: bool, amt: Amt },
    Claim { u: u8, to: Option<u8> },
    Accrue { v: u8, coin: u8, amt: Amt },
    UpdateIndex { by: u8 },
    CheckSlashing { u: u8 },
    /// the chain admin migrates one of the contracts to the same code (its `migrate` entry point runs)
    Migrate { c: u8 },
    /// the owner re-submits the *current* configuration of a contract (a no-op by value): 0 hub params, 1 hub config,
    /// 2 reward config, 3 dispatcher config, 4-6 dispatcher re-adds an already listed swap denom (usei / kusd / uatom),
    /// 7 reward contract re-adds its listed swap denom
    Reconfig { c: u8 },
    Advance { clock: Clock },
    Slash { v: u8, permille: u16, unbonding: bool },
    Donate { to: u8, coin: u8, amt: Amt },
    AddVal { v: u8 },
    RemoveVal { v: u8 },
    Redelegations { v: u8, by: u8 },
    SetParams { epoch: Option<u64>, fee: Option<Dec>, threshold: Option<Dec> },
    Pause { on: bool },
    Stubs { swap: StubMode, oracle: StubMode },
    /// a cw20 Receive hook not coming from a registered token (direct call or through FAKE20)
    FakeHook { u: u8, via_fake20: bool, convert: bool, amt: Amt },
}

/// A resolved (concrete) operation.
#[derive(Clone, Debug, PartialEq, Serialize)]
pub enum ROp {
    Noop(String),
    Bond { user: String, st: bool, amount: u128 },
    BondBad { user: String, st: bool, kind: u8 },
    /// cw20 Send / SendFrom to the hub with an Unbond or Convert hook. `owner` held the tokens,
    /// `caller` signed the cw20 message (they differ for SendFrom).
    Hook { owner: String, caller: String, st: bool, amount: u128, convert: bool },
    Withdraw { user: String },
    Transfer { from: String, to: String, st: bool, amount: u128 },
    SendSink { from: String, st: bool, amount: u128 },
    Allow { owner: String, spender: String, st: bool, amount: u128, exp: String },
    Disallow { owner: String, spender: String, st: bool, amount: u128 },
    TransferFrom { owner: String, spender: String, to: String, st: bool, amount: u128 },
    BurnFrom { owner: String, spender: String, st: bool, amount: u128 },
    DirectBurn { user: String, st: bool, amount: u128 },
    DirectMint { user: String, st: bool, amount: u128 },
    Claim { user: String, to: Option<String> },
    Accrue { validator: String, denom: String, amount: u128 },
    UpdateIndex { by: String },
    CheckSlashing { by: String },
    Migrate { contract: String },
    Reconfig { which: u8 },
    Advance { secs: u64 },
    Slash { validator: String, permille: u16, unbonding: bool },
    Donate { to: String, denom: String, amount: u128 },
    AddVal { validator: String },
    RemoveVal { validator: String },
    Redelegations { validator: String, by: String },
    SetParams { epoch: Option<u64>, fee: Option<Dec>, threshold: Option<Dec> },
    Pause { on: bool },
    Stubs { swap: StubMode, oracle: StubMode },
    FakeHook { user: String, via_fake20: bool, convert: bool, amount: u128 },
}

impl ROp {
    /// environment events are not transactions
    pub fn is_env(&self) -> bool {
        matches!(
            self,
            ROp::Noop(_) | ROp::Accrue { .. } | ROp::Advance { .. } | ROp::Slash { .. } | ROp::Donate { .. } | ROp::Stubs { .. }
        )
    }
    pub fn is_slash(&self) -> bool {
        matches!(self, ROp::Slash { .. })
    }
    pub fn name(&self) -> &'static str {
        match self {
            ROp::Noop(_) => "noop",
            ROp::Bond { st: false, .. } => "bond_bsei",
            ROp::Bond { st: true, .. } => "bond_stsei",
            ROp::BondBad { .. } => "bond_bad",
            ROp::Hook { convert: false, st: false, .. } => "unbond_bsei",
            ROp::Hook { convert: false, st: true, .. } => "unbond_stsei",
            ROp::Hook { convert: true, st: false, .. } => "convert_bsei_to_stsei",
            ROp::Hook { convert: true, st: true, .. } => "convert_stsei_to_bsei",
            ROp::Withdraw { .. } => "withdraw",
            ROp::Transfer { .. } => "transfer",
            ROp::SendSink { .. } => "send_sink",
            ROp::Allow { .. } => "allow",
            ROp::Disallow { .. } => "disallow",
            ROp::TransferFrom { .. } => "transfer_from",
            ROp::BurnFrom { .. } => "burn_from",
            ROp::DirectBurn { .. } => "direct_burn",
            ROp::DirectMint { .. } => "direct_mint",
            ROp::Claim { .. } => "claim",
            ROp::Accrue { .. } => "accrue",
            ROp::UpdateIndex { .. } => "update_index",
            ROp::CheckSlashing { .. } => "check_slashing",
            ROp::Migrate { .. } => "migrate",
            ROp::Reconfig { .. } => "reconfig",
            ROp::Advance { .. } => "advance",
            ROp::Slash { .. } => "slash",
            ROp::Donate { .. } => "donate",
            ROp::AddVal { .. } => "add_validator",
            ROp::RemoveVal { .. } => "remove_validator",
            ROp::Redelegations { .. } => "redelegations",
            ROp::SetParams { .. } => "set_params",
            ROp::Pause { .. } => "pause",
            ROp::Stubs { .. } => "stubs",
            ROp::FakeHook { .. } => "fake_hook",
        }
    }
}

#[derive(Clone, Debug)]
pub struct Step {
    pub rop: ROp,
    /// Ok(trace slice) for a committed transaction or an environment event; Err(reason) for a failed tx
    pub res: Result<Vec<Ev>, String>,
}

impl Step {
    pub fn ok(&self) -> bool {
        self.res.is_ok()
    }
    pub fn evs(&self) -> &[Ev] {
        match &self.res {
            Ok(v) => v,
            Err(_) => &[],
        }
    }
    pub fn desc(&self) -> String {
        format!(
            "{:?} -> {}",
            self.rop,
            match &self.res {
                Ok(_) => "ok".to_string(),
                Err(e) => format!("ERR {}", e),
            }
        )
    }
}

// ------------------------------------------------------------------------------------------------
// op-family weights (per property profile)

#[derive(Clone, Debug)]
pub struct Profile {
    pub bond: u32,
    pub bond_bad: u32,
    pub unbond: u32,
    pub convert: u32,
    pub hook_from: u32,
    pub withdraw: u32,
    pub transfer: u32,
    pub send_sink: u32,
    pub allow: u32,
    pub disallow: u32,
    pub transfer_from: u32,
    pub burn_from: u32,
    pub direct: u32,
    pub claim: u32,
    pub accrue: u32,
    pub update_index: u32,
    pub check_slashing: u32,
    pub migrate: u32,
    pub reconfig: u32,
    pub advance: u32,
    pub slash: u32,
    pub donate: u32,
    pub registry: u32,
    pub params: u32,
    pub pause: u32,
    pub stubs: u32,
    pub fake_hook: u32,
    /// bond ops forced at the start of every history
    pub prefix_bonds: std::ops::Range<usize>,
    pub len: std::ops::Range<usize>,
    /// restrict stSei/bSei choice: None = both
    pub only_bsei: bool,
    /// probability (percent) that a slashing event follows the prefix bonds
    pub prefix_slash_pct: u32,
}

impl Profile {
    pub fn base() -> Profile {
        Profile {
            bond: 14,
            bond_bad: 1,
            unbond: 12,
            convert: 6,
            hook_from: 2,
            withdraw: 9,
            transfer: 3,
            send_sink: 1,
            allow: 1,
            disallow: 0,
            transfer_from: 1,
            burn_from: 1,
            direct: 1,
            claim: 2,
            accrue: 5,
            update_index: 4,
            check_slashing: 2,
            migrate: 1,
            reconfig: 1,
            advance: 14,
            slash: 4,
            donate: 2,
            registry: 2,
            params: 1,
            pause: 0,
            stubs: 0,
            fake_hook: 1,
            prefix_bonds: 1..4,
            len: 8..60,
            only_bsei: false,
            prefix_slash_pct: 15,
        }
    }
}

fn st_strategy(p: &Profile) -> BoxedStrategy<bool> {
    if p.only_bsei {
        Just(false).boxed()
    } else {
        any::<bool>().boxed()
    }
}

pub fn bond_strategy(p: &Profile) -> BoxedStrategy<Op> {
    (0u8..6, st_strategy(p), amt_strategy()).prop_map(|(u, st, amt)| Op::Bond { u, st, amt }).boxed()
}

pub fn clock_strategy() -> BoxedStrategy<Clock> {
    prop_oneof![
        3 => (1u16..2000).prop_map(Clock::Secs),
        2 => (1u16..4).prop_map(Clock::Secs),
        4 => (-1i8..=2).prop_map(Clock::Epoch),
        4 => (-1i8..=1).prop_map(Clock::Unbond),
        2 => (-1i8..=1).prop_map(Clock::UnbondYoungest),
        2 => Just(Clock::Long),
    ]
    .boxed()
}

pub fn op_strategy(p: &Profile) -> BoxedStrategy<Op> {
    let st = || st_strategy(p);
    let mut v: Vec<(u32, BoxedStrategy<Op>)> = vec![];
    let mut add = |w: u32, s: BoxedStrategy<Op>| {
        if w > 0 {
            v.push((w, s));
        }
    };
    add(p.bond, bond_strategy(p));
    add(p.bond_bad, (0u8..6, st(), 0u8..4).prop_map(|(u, st, kind)| Op::BondBad { u, st, kind }).boxed());
    add(p.unbond, (0u8..6, st(), frac()).prop_map(|(u, st, frac)| Op::Unbond { u, st, frac }).boxed());
    add(p.convert, (0u8..6, st(), frac()).prop_map(|(u, st, frac)| Op::Convert { u, st, frac }).boxed());
    add(
        p.hook_from,
        (0u8..6, 0u8..6, st(), frac(), any::<bool>())
            .prop_map(|(owner, spender, st, frac, convert)| Op::HookFrom { owner, spender, st, frac, convert })
            .boxed(),
    );
    add(p.withdraw, (0u8..6).prop_map(|u| Op::Withdraw { u }).boxed());
    add(p.transfer, (0u8..6, prop_oneof![3 => 0u8..10, 1 => 10u8..60], st(), frac()).prop_map(|(u, to, st, frac)| Op::Transfer { u, to, st, frac }).boxed());
    add(p.send_sink, (0u8..6, st(), frac()).prop_map(|(u, st, frac)| Op::SendSink { u, st, frac }).boxed());
    add(
        p.allow,
        (0u8..6, 0u8..6, st(), frac(), 0u8..5)
            .prop_map(|(u, spender, st, frac, exp)| Op::Allow { u, spender, st, frac, exp })
            .boxed(),
    );
    add(
        p.disallow,
        (0u8..6, 0u8..6, st(), frac()).prop_map(|(u, spender, st, frac)| Op::Disallow { u, spender, st, frac }).boxed(),
    );
    add(
        p.transfer_from,
        (0u8..6, 0u8..6, prop_oneof![3 => 0u8..10, 1 => 10u8..60], st(), frac())
            .prop_map(|(owner, spender, to, st, frac)| Op::TransferFrom { owner, spender, to, st, frac })
            .boxed(),
    );
    add(
        p.burn_from,
        (0u8..6, 0u8..6, st(), frac())
            .prop_map(|(owner, spender, st, frac)| Op::BurnFrom { owner, spender, st, frac })
            .boxed(),
    );
    add(
        p.direct,
        prop_oneof![
            (0u8..6, st(), frac()).prop_map(|(u, st, frac)| Op::DirectBurn { u, st, frac }),
            (0u8..6, st(), small_amt_strategy()).prop_map(|(u, st, amt)| Op::DirectMint { u, st, amt }),
        ]
        .boxed(),
    );
    add(p.claim, (0u8..8, proptest::option::weighted(0.3, 0u8..6)).prop_map(|(u, to)| Op::Claim { u, to }).boxed());
    add(
        p.accrue,
        (0u8..5, prop_oneof![4 => Just(0u8), 3 => Just(1u8), 1 => Just(2u8), 1 => Just(3u8), 1 => Just(4u8)], amt_strategy())
            .prop_map(|(v, coin, amt)| Op::Accrue { v, coin, amt })
            .boxed(),
    );
    add(p.update_index, prop_oneof![5 => Just(0u8), 1 => 1u8..4].prop_map(|by| Op::UpdateIndex { by }).boxed());
    add(p.check_slashing, (0u8..6).prop_map(|u| Op::CheckSlashing { u }).boxed());
    add(p.migrate, prop_oneof![2 => Just(0u8), 2 => Just(1u8), 1 => 2u8..5].prop_map(|c| Op::Migrate { c }).boxed());
    add(p.reconfig, (0u8..8).prop_map(|c| Op::Reconfig { c }).boxed());
    add(p.advance, clock_strategy().prop_map(|clock| Op::Advance { clock }).boxed());
    add(
        p.slash,
        (prop_oneof![5 => 0u8..5, 1 => Just(255u8)], prop_oneof![3 => 1u16..100, 2 => 100u16..=500, 2 => proptest::sample::select(&[1u16, 10, 100, 500][..])], any::<bool>())
            .prop_map(|(v, permille, unbonding)| Op::Slash { v, permille, unbonding })
            .boxed(),
    );
    add(
        p.donate,
        (prop_oneof![3 => Just(0u8), 1 => Just(1u8), 1 => Just(2u8)], 0u8..5, amt_strategy())
            .prop_map(|(to, coin, amt)| Op::Donate { to, coin, amt })
            .boxed(),
    );
    add(
        p.registry,
        prop_oneof![
            2 => (0u8..5).prop_map(|v| Op::AddVal { v }),
            3 => (0u8..5).prop_map(|v| Op::RemoveVal { v }),
            1 => (0u8..5, 0u8..6).prop_map(|(v, by)| Op::Redelegations { v, by }),
        ]
        .boxed(),
    );
    add(
        p.params,
        (
            proptest::option::weighted(0.5, prop_oneof![Just(1u64), Just(5), Just(30), 1u64..2000]),
            proptest::option::weighted(0.5, dec_grid(&[0, ONE / 1000, ONE / 200, ONE / 20, ONE / 2, ONE], ONE)),
            proptest::option::weighted(0.5, dec_grid(&[ONE, ONE * 99 / 100, ONE * 9 / 10, ONE / 2, 0], ONE)),
        )
            .prop_map(|(epoch, fee, threshold)| Op::SetParams { epoch, fee, threshold })
            .boxed(),
    );
    add(p.pause, any::<bool>().prop_map(|on| Op::Pause { on }).boxed());
    add(
        p.stubs,
        (stub_mode(), stub_mode()).prop_map(|(swap, oracle)| Op::Stubs { swap, oracle }).boxed(),
    );
    add(
        p.fake_hook,
        (0u8..6, any::<bool>(), any::<bool>(), small_amt_strategy())
            .prop_map(|(u, via_fake20, convert, amt)| Op::FakeHook { u, via_fake20, convert, amt })
            .boxed(),
    );
    Union::new_weighted(v).boxed()
}

pub fn stub_mode() -> BoxedStrategy<StubMode> {
    prop_oneof![Just(StubMode::Ok), Just(StubMode::Fail), Just(StubMode::Garbage)].boxed()
}

fn frac() -> BoxedStrategy<u16> {
    prop_oneof![3 => any::<u16>(), 1 => Just(u16::MAX), 1 => Just(0u16), 1 => Just(32767u16)].boxed()
}

#[derive(Clone, Debug, PartialEq, Serialize, Deserialize)]
pub struct History {
    pub cfg: Cfg,
    pub ops: Vec<Op>,
}

pub fn history_strategy(p: &Profile, cfgs: BoxedStrategy<Cfg>) -> BoxedStrategy<History> {
    let pct = p.prefix_slash_pct;
    (
        cfgs,
        proptest::collection::vec(bond_strategy(p), p.prefix_bonds.clone()),
        proptest::collection::vec(op_strategy(p), p.len.clone()),
        (0u32..100, prop_oneof![4 => 0u8..5, 1 => Just(255u8)], prop_oneof![2 => 1u16..=300, 1 => proptest::sample::select(&[10u16, 100, 500][..])]),
    )
        .prop_map(move |(mut cfg, mut a, b, (roll, v, permille))| {
            if roll < pct {
                a.push(Op::Slash { v, permille, unbonding: false });
                // half of the exact all-validator slashes land the bSei rate exactly on the configured threshold
                if v == 255 && [10u16, 100, 500].contains(&permille) && roll % 2 == 0 {
                    cfg.threshold = Dec::new(ONE - permille as u128 * (ONE / 1000));
                    if cfg.fee.atomics() == 0 {
                        cfg.fee = Dec::new(ONE / 200);
                    }
                }
            }
            a.extend(b);
            History { cfg, ops: a }
        })
        .boxed()
}

/// Structured generator: k consecutive unbond batches (several users, both tokens, small or large
/// amounts), optional slashing of unbonding stake and unsolicited transfers, then maturity and withdrawals by
/// everybody. Produces release groups (often multi-batch) in every case.
pub fn release_scenario_strategy(cfgs: BoxedStrategy<Cfg>) -> BoxedStrategy<History> {
    let small = any::<bool>();
    let batch = |small: bool| {
        let amt = if small { small_amt_strategy() } else { amt_strategy() };
        let _ = amt;
        (
            proptest::collection::vec((0u8..6, any::<bool>(), frac()), 1..5),
            prop_oneof![3 => Just(1i8), 1 => Just(2i8), 1 => Just(0i8)],
            proptest::option::weighted(0.35, (0u8..5, prop_oneof![Just(500u16), Just(250u16), Just(100u16), 1u16..500], any::<bool>())),
            proptest::option::weighted(0.15, small_amt_strategy()),
        )
    };
    (cfgs, small, 1usize..5)
        .prop_flat_map(move |(cfg, small, k)| {
            let bond_amt = if small { small_amt_strategy() } else { amt_strategy() };
            (
                Just(cfg),
                proptest::collection::vec((0u8..6, any::<bool>(), bond_amt), 2..7),
                proptest::collection::vec(batch(small), k..=k),
                prop_oneof![Just(Clock::Unbond(0)), Just(Clock::Unbond(1)), Just(Clock::Long), Just(Clock::Unbond(-1)), Just(Clock::UnbondYoungest(0)), Just(Clock::UnbondYoungest(0)), Just(Clock::UnbondYoungest(1))],
                proptest::collection::vec(0u8..8, 2..10),
                any::<bool>(),
            )
        })
        .prop_map(|(cfg, bonds, batches, fin, withdrawers, second_round)| {
            let mut ops = vec![];
            for (u, st, amt) in bonds {
                ops.push(Op::Bond { u, st, amt });
            }
            for (unbonds, eoff, slash, donate) in batches {
                for (u, st, frac) in unbonds {
                    ops.push(Op::Unbond { u, st, frac });
                }
                ops.push(Op::Advance { clock: Clock::Epoch(eoff) });
                // the next unbond (first of the next batch, or this trailing one) closes the batch
                ops.push(Op::Unbond { u: 0, st: false, frac: 0 });
                ops.push(Op::Unbond { u: 0, st: true, frac: 0 });
                if let Some((v, permille, unbonding)) = slash {
                    ops.push(Op::Slash { v, permille, unbonding: unbonding || permille % 2 == 0 });
                }
                if let Some(amt) = donate {
                    ops.push(Op::Donate { to: 0, coin: 0, amt });
                }
            }
            ops.push(Op::Advance { clock: fin });
            // a third of the scenarios: the hub is migrated (to the same code) while matured coins wait unreleased
            if withdrawers.len() % 3 == 0 {
                ops.push(Op::Migrate { c: 0 });
            }
            for u in &withdrawers {
                ops.push(Op::Withdraw { u: *u });
            }
            if second_round {
                ops.push(Op::Advance { clock: Clock::Long });
                for u in &withdrawers {
                    ops.push(Op::Withdraw { u: *u });
                }
            }
            History { cfg, ops }
        })
        .boxed()
}

/// Structured generator: many consecutive batches (10-24) with a short epoch and an unbonding period spanning
/// several epochs, so that at any moment several batches are in flight while older ones are released; users unbond
/// repeatedly (claims in many batches, batch ids with one and two digits) and withdraw at arbitrary points.
pub fn many_batches_scenario_strategy(cfgs: BoxedStrategy<Cfg>) -> BoxedStrategy<History> {
    let round = (
        proptest::collection::vec((0u8..6, any::<bool>(), prop_oneof![Just(0u16), 0u16..4000]), 1..3),
        prop_oneof![4 => Just(1i8), 1 => Just(2i8)],
        proptest::option::weighted(0.4, 0u8..6),
        proptest::option::weighted(0.08, (0u8..5, 1u16..300, any::<bool>())),
    );
    (
        cfgs,
        prop_oneof![Just(1u64), Just(5u64)],
        prop_oneof![Just(4u64), Just(7u64), Just(12u64)],
        proptest::collection::vec((0u8..6, any::<bool>(), amt_strategy()), 3..7),
        proptest::collection::vec(round, 10..25),
        proptest::collection::vec(0u8..6, 1..8),
    )
        .prop_map(|(mut cfg, epoch, span, bonds, rounds, final_withdrawers)| {
            cfg.epoch = epoch;
            cfg.unbonding = (epoch + 1) * span;
            let mut ops = vec![];
            for (u, st, amt) in bonds {
                ops.push(Op::Bond { u, st, amt });
            }
            for (unbonds, eoff, withdraw, slash) in rounds {
                for (u, st, frac) in unbonds {
                    ops.push(Op::Unbond { u, st, frac });
                }
                ops.push(Op::Advance { clock: Clock::Epoch(eoff) });
                if let Some(u) = withdraw {
                    if u == 5 {
                        ops.push(Op::Migrate { c: 0 });
                    }
                    ops.push(Op::Withdraw { u });
                }
                if let Some((v, permille, unbonding)) = slash {
                    ops.push(Op::Slash { v, permille, unbonding });
                }
            }
            ops.push(Op::Advance { clock: Clock::Unbond(0) });
            for u in &final_withdrawers {
                ops.push(Op::Withdraw { u: *u });
            }
            ops.push(Op::Advance { clock: Clock::Long });
            for u in &final_withdrawers {
                ops.push(Op::Withdraw { u: *u });
            }
            History { cfg, ops }
        })
        .boxed()
}

/// Structured generator: a batch from which *nothing arrives*. A lone dust request (1 unit, or a few) forms a batch of
/// its own; it is worth zero coins at a rate below 1, or its single unbonding entry is slashed down to zero. Around
/// it: an earlier batch with two claimants of whom only one withdraws at maturity (so the other holds a released,
/// unpaid claim when the empty batch matures with the hub balance unchanged), and a later ordinary batch.
pub fn zero_arrival_scenario_strategy(cfgs: BoxedStrategy<Cfg>) -> BoxedStrategy<History> {
    (
        cfgs,
        proptest::collection::vec((0u8..3, any::<bool>(), prop_oneof![2 => small_amt_strategy(), 1 => amt_strategy()]), 2..5),
        (any::<bool>(), prop_oneof![3 => Just(0u16), 1 => 0u16..64], any::<bool>()),
        (0u8..4, prop_oneof![2 => Just(500u16), 1 => Just(100u16), 1 => 1u16..=500], prop_oneof![1 => Just(255u8), 1 => 0u8..5]),
        (frac(), frac(), frac(), prop_oneof![Just(0i8), Just(1i8)]),
        (0u8..3, 0u8..3, any::<bool>()),
        proptest::collection::vec(0u8..4, 0..5),
    )
        .prop_map(|(cfg, bonds, (dust_st, dust_frac, dust_first), (slash_when, permille, sv), (f0, f1, f2, off), (w1, w2, donate), tail)| {
            let mut ops = vec![];
            // both tokens exist, the dust requester holds both
            ops.push(Op::Bond { u: 2, st: false, amt: Amt { class: 2, mant: 41 } });
            ops.push(Op::Bond { u: 2, st: true, amt: Amt { class: 2, mant: 17 } });
            for (u, st, amt) in bonds {
                ops.push(Op::Bond { u, st, amt });
            }
            if slash_when & 1 == 1 {
                ops.push(Op::Slash { v: sv, permille, unbonding: false });
            }
            // batch 1: two claimants
            ops.push(Op::Unbond { u: 0, st: false, frac: f0 });
            ops.push(Op::Unbond { u: 1, st: true, frac: f1 });
            ops.push(Op::Unbond { u: 1, st: false, frac: f2 });
            ops.push(Op::Unbond { u: 0, st: true, frac: f2 });
            ops.push(Op::Advance { clock: Clock::Epoch(1) });
            // closes batch 1; this request is alone in batch 2
            ops.push(Op::Unbond { u: 2, st: dust_st, frac: dust_frac });
            ops.push(Op::Advance { clock: Clock::Epoch(1) });
            // closes batch 2 (the dust batch); this request opens batch 3
            ops.push(Op::Unbond { u: 2, st: dust_st != dust_first, frac: f1 });
            if slash_when & 2 == 2 {
                ops.push(Op::Slash { v: 255, permille: 500, unbonding: true });
            }
            ops.push(Op::Advance { clock: Clock::Unbond(off) });
            if w1 == 2 {
                ops.push(Op::Migrate { c: 0 });
            }
            ops.push(Op::Withdraw { u: w1 });
            if donate {
                ops.push(Op::Donate { to: 0, coin: 0, amt: Amt { class: 1, mant: 3 } });
            }
            ops.push(Op::Advance { clock: Clock::Unbond(1) });
            ops.push(Op::Withdraw { u: w2 });
            ops.push(Op::Advance { clock: Clock::Epoch(1) });
            ops.push(Op::Unbond { u: 0, st: false, frac: f0 });
            ops.push(Op::Advance { clock: Clock::Unbond(1) });
            for u in &tail {
                ops.push(Op::Withdraw { u: *u });
            }
            ops.push(Op::Advance { clock: Clock::Long });
            for u in 0u8..3 {
                ops.push(Op::Withdraw { u });
            }
            History { cfg, ops }
        })
        .boxed()
}

/// Structured generator for the peg-recovery paths at the top of the envelope: one account owns the *whole* bSei
/// supply of a large, non-round pool, the pool is slashed below the threshold, and the account then converts, unbonds
/// or bonds amounts comparable to (or exactly equal to) the whole pool.
pub fn peg_scenario_strategy(cfgs: BoxedStrategy<Cfg>) -> BoxedStrategy<History> {
    let mv = || (0u8..5, prop_oneof![3 => Just(u16::MAX), 1 => Just(u16::MAX - 1), 2 => any::<u16>()], amt_strategy());
    (
        cfgs,
        (any::<u32>(), prop_oneof![6 => Just(10u8), 1 => Just(9u8), 1 => Just(5u8), 1 => Just(3u8)]),
        proptest::option::weighted(0.5, (any::<u32>(), prop_oneof![Just(10u8), Just(9u8), Just(2u8)])),
        // one to three slashes, often heavy: the flooring error of the 18-digit rate is worth a base unit only when
        // claims exceed rate x 1e18, i.e. for large pools at low rates
        proptest::collection::vec(
            (prop_oneof![2 => Just(255u8), 1 => 0u8..5], prop_oneof![2 => 1u16..100, 3 => 100u16..=500, 2 => 400u16..=500, 1 => proptest::sample::select(&[1u16, 10, 100, 500][..])]),
            1..4,
        ),
        (any::<bool>(), proptest::option::weighted(0.35, any::<u32>())),
        // the first move: mostly an exit with the *whole* supply
        prop_oneof![3 => Just((0u8, u16::MAX)), 1 => Just((2u8, u16::MAX)), 2 => (0u8..5, any::<u16>())],
        proptest::collection::vec(mv(), 0..3),
    )
        .prop_map(|(mut cfg, (m, class), st_side, slashes, (check_first, rebond), first, moves)| {
            // peg recovery is only interesting with a fee; keep generated fees, replace a zero fee
            if cfg.fee.atomics() == 0 {
                cfg.fee = Dec::new(ONE / 20);
            }
            let mut ops = vec![Op::Bond { u: 0, st: false, amt: Amt { class, mant: m } }];
            if let Some((m2, c2)) = st_side {
                ops.push(Op::Bond { u: 1, st: true, amt: Amt { class: c2, mant: m2 } });
            }
            for (sv, permille) in slashes {
                ops.push(Op::Slash { v: sv, permille, unbonding: false });
            }
            if check_first {
                ops.push(Op::CheckSlashing { u: 3 });
            }
            if let Some(m3) = rebond {
                // the same account tops up at the low rate: many more claims on the same backing scale
                ops.push(Op::Bond { u: 0, st: false, amt: Amt { class: 10, mant: m3 } });
            }
            let mut all = vec![(first.0, first.1, Amt { class: 1, mant: 0 })];
            all.extend(moves);
            for (kind, frac, amt) in all {
                ops.push(match kind {
                    0 | 1 => Op::Convert { u: 0, st: false, frac },
                    2 => Op::Unbond { u: 0, st: false, frac },
                    3 => Op::Convert { u: 1, st: true, frac },
                    _ => Op::Bond { u: 2, st: false, amt },
                });
            }
            History { cfg, ops }
        })
        .boxed()
}

/// Structured generator for registry operations: bonds over several validators, uneven layouts through slashing,
/// a removal (stake redelegated to the others), a second removal that is blocked because a redelegation into that
/// validator is still in flight, optional re-addition, time passing, and the permissionless `Redelegations` that
/// finishes the move later; rewards pending and batches in flight around the removals.
pub fn registry_scenario_strategy(p: &Profile, cfgs: BoxedStrategy<Cfg>) -> BoxedStrategy<History> {
    (
        cfgs,
        proptest::collection::vec(bond_strategy(p), 2..6),
        proptest::collection::vec((0u8..5, 1u16..400), 0..3),
        proptest::collection::vec((0u8..5, prop_oneof![Just(0u8), Just(1u8)], amt_strategy()), 0..3),
        (0u8..5, 0u8..5, any::<bool>(), any::<bool>(), any::<bool>()),
        proptest::collection::vec(op_strategy(p), 0..6),
        proptest::collection::vec(bond_strategy(p), 0..3),
    )
        .prop_map(|(cfg, bonds, slashes, accruals, (v1, v2, unbond_first, readd, wait_long), others, later_bonds)| {
            let mut ops: Vec<Op> = bonds;
            for (v, permille) in slashes {
                ops.push(Op::Slash { v, permille, unbonding: false });
            }
            ops.push(Op::Bond { u: 0, st: true, amt: Amt { class: 2, mant: 7 } });
            if unbond_first {
                ops.push(Op::Unbond { u: 0, st: true, frac: 9000 });
            }
            for (v, coin, amt) in accruals {
                ops.push(Op::Accrue { v, coin, amt });
            }
            ops.push(Op::RemoveVal { v: v1 });
            ops.extend(others);
            // second removal: often hits a validator that just received a redelegation (blocked)
            ops.push(Op::RemoveVal { v: v2 });
            if readd {
                ops.push(Op::AddVal { v: v1 });
            }
            ops.extend(later_bonds);
            ops.push(Op::Advance { clock: if wait_long { Clock::Long } else { Clock::Secs(5) } });
            ops.push(Op::Redelegations { v: v2, by: 1 });
            ops.push(Op::Redelegations { v: v1, by: 2 });
            ops.push(Op::Bond { u: 1, st: false, amt: Amt { class: 2, mant: 3 } });
            History { cfg, ops }
        })
        .boxed()
}

/// Structured generator: one holder spreads bSei over 31-50 fresh accounts (more than one 30-entry page of the
/// AllAccounts / Holders enumerations), with reward rounds, claims and further operations in between.
pub fn many_accounts_scenario_strategy(p: &Profile, cfgs: BoxedStrategy<Cfg>) -> BoxedStrategy<History> {
    (
        cfgs,
        proptest::collection::vec(bond_strategy(p), 1..4),
        31u8..50,
        proptest::collection::vec(op_strategy(p), 0..10),
        proptest::collection::vec((0u8..5, prop_oneof![Just(0u8), Just(1u8)], amt_strategy()), 1..4),
    )
        .prop_map(|(cfg, bonds, n, others, accruals)| {
            let mut ops = vec![Op::Bond { u: 0, st: false, amt: Amt { class: 3, mant: 5000 } }, Op::Bond { u: 0, st: true, amt: Amt { class: 3, mant: 700 } }];
            ops.extend(bonds);
            for k in 0..n {
                ops.push(Op::Transfer { u: 0, to: 10 + k, st: k % 5 == 4, frac: 300 });
            }
            for (v, coin, amt) in accruals {
                ops.push(Op::Accrue { v, coin, amt });
            }
            ops.push(Op::UpdateIndex { by: 0 });
            ops.extend(others);
            ops.push(Op::UpdateIndex { by: 0 });
            History { cfg, ops }
        })
        .boxed()
}

/// Structured generator: 3-5 (sometimes up to 30) registered validators, bonds, heavy slashing of one or two validators (uneven layout),
/// optionally liquid coins on the hub (donation or a matured undelegation), then bonds of pool-relative sizes.
pub fn uneven_bond_scenario_strategy(cfgs: BoxedStrategy<Cfg>) -> BoxedStrategy<History> {
    (
        cfgs,
        prop_oneof![8 => 3u8..=5, 1 => 6u8..=16, 1 => 17u8..=30],
        proptest::collection::vec((0u8..6, any::<bool>(), amt_strategy()), 2..5),
        proptest::collection::vec((0u8..5, prop_oneof![Just(500u16), Just(300u16), 50u16..500]), 1..4),
        proptest::option::weighted(0.6, amt_strategy()),
        any::<bool>(),
        proptest::collection::vec((0u8..6, any::<bool>(), prop_oneof![3 => (Just(6u8), any::<u32>()), 1 => (Just(7u8), any::<u32>()), 2 => (0u8..6, any::<u32>())]), 1..6),
    )
        .prop_map(|(mut cfg, n, bonds, slashes, donate, unbond_cycle, later)| {
            cfg.n_vals = n;
            cfg.n_reg = n;
            let mut ops = vec![];
            for (u, st, amt) in bonds {
                ops.push(Op::Bond { u, st, amt });
            }
            if unbond_cycle {
                // a matured, not yet withdrawn undelegation leaves liquid coins on the hub
                ops.push(Op::Unbond { u: 0, st: false, frac: 20000 });
                ops.push(Op::Unbond { u: 0, st: true, frac: 20000 });
                ops.push(Op::Advance { clock: Clock::Epoch(1) });
                ops.push(Op::Unbond { u: 1, st: false, frac: 0 });
                ops.push(Op::Unbond { u: 1, st: true, frac: 0 });
                ops.push(Op::Advance { clock: Clock::Unbond(0) });
            }
            for (v, permille) in slashes {
                ops.push(Op::Slash { v, permille, unbonding: false });
            }
            if let Some(amt) = donate {
                ops.push(Op::Donate { to: 0, coin: 0, amt });
            }
            for (u, st, (class, mant)) in later {
                ops.push(Op::Bond { u, st, amt: Amt { class, mant } });
            }
            History { cfg, ops }
        })
        .boxed()
}

/// Structured generator: bonds of both tokens, then reward rounds (rewards of several coins accrue on several
/// validators, then UpdateGlobalIndex), interleaved with a few generated operations of the given profile.
pub fn reward_scenario_strategy(p: &Profile, cfgs: BoxedStrategy<Cfg>) -> BoxedStrategy<History> {
    let round = (
        proptest::collection::vec(
            (0u8..5, prop_oneof![4 => Just(0u8), 4 => Just(1u8), 1 => Just(2u8), 1 => Just(3u8), 1 => Just(4u8)], amt_strategy()),
            1..5,
        ),
        proptest::collection::vec(op_strategy(p), 0..4),
    );
    (
        cfgs,
        proptest::collection::vec(bond_strategy(p), 2..6),
        proptest::collection::vec(round, 1..6),
    )
        .prop_map(|(cfg, mut ops, rounds)| {
            for (accruals, others) in rounds {
                for (v, coin, amt) in accruals {
                    ops.push(Op::Accrue { v, coin, amt });
                }
                ops.push(Op::UpdateIndex { by: 0 });
                ops.extend(others);
            }
            History { cfg, ops }
        })
        .boxed()
}

// ------------------------------------------------------------------------------------------------
// interpreter

pub struct Interp {
    pub cfg: Cfg,
    /// kusd-equivalent / usei-equivalent of the rewards delivered so far (keeps balances, pools and the
    /// reward index inside E1 whatever the oracle price)
    pub reward_ku_used: u128,
    pub reward_us_used: u128,
    /// validators currently registered according to the interpreter's own bookkeeping is NOT kept:
    /// everything is resolved from public state.
    pub noops: u64,
}

fn clampu(i: u8, n: u8) -> u8 {
    i.min(n.saturating_sub(1))
}

fn tok(st: bool) -> &'static str {
    if st {
        STSEI
    } else {
        BSEI
    }
}

/// envelope E1: a conversion may not push the destination token's supply beyond 1e18
pub fn convert_cap(w: &World, st: bool, amount: u128) -> u128 {
    let pool = hub_state(w);
    let (rs, rd, sup_d) = if st {
        (pool.stsei_exchange_rate, pool.bsei_exchange_rate, supply(w, BSEI))
    } else {
        (pool.bsei_exchange_rate, pool.stsei_exchange_rate, supply(w, STSEI))
    };
    let value_room = crate::util::mul_floor(E18.saturating_sub(sup_d), rd);
    if rs.is_zero() {
        amount
    } else {
        amount.min(crate::util::div_floor(value_room, rs))
    }
}

pub fn frac_of(bal: u128, frac: u16) -> u128 {
    if bal == 0 {
        return 0;
    }
    if frac == u16::MAX {
        return bal;
    }
    let x = cosmwasm_std::Uint256::from(bal) * cosmwasm_std::Uint256::from(frac as u128 + 1)
        / cosmwasm_std::Uint256::from(65536u128);
    let x: u128 = cosmwasm_std::Uint128::try_from(x).unwrap().u128();
    x.max(1)
}

pub fn hook_msg(convert: bool) -> cosmwasm_std::Binary {
    to_json_binary(&if convert { Cw20HookMsg::Convert {} } else { Cw20HookMsg::Unbond {} }).unwrap()
}

impl Interp {
    pub fn new(cfg: &Cfg) -> Self {
        Interp { cfg: cfg.clone(), reward_ku_used: 0, reward_us_used: 0, noops: 0 }
    }
    fn user(&self, u: u8) -> String {
        user(clampu(u, self.cfg.n_users))
    }
    fn val(&self, v: u8) -> String {
        val(clampu(v, self.cfg.n_vals))
    }
    /// first user at index >= u (wrapping) holding a balance of the token; falls back to user u
    fn holder(&self, w: &World, u: u8, st: bool) -> String {
        let n = self.cfg.n_users;
        let u = clampu(u, n);
        for k in 0..n {
            let cand = user((u + k) % n);
            if bal(w, tok(st), &cand) > 0 {
                return cand;
            }
        }
        user(u)
    }
    /// recipients of transfers: users, then a few contracts
    fn recipient(&self, to: u8) -> String {
        if to < self.cfg.n_users {
            user(to)
        } else {
            match to - self.cfg.n_users {
                0 => SINK.to_string(),
                1 => HUB.to_string(),
                2 => REWARD.to_string(),
                3 => KEEPER.to_string(),
                // many distinct fresh accounts: more than one page of the enumeration queries (30 per page)
                k => format!("fresh{}", k),
            }
        }
    }
    /// holders able to claim rewards: users, then contracts that may hold bSei
    fn claimant(&self, u: u8) -> String {
        if u < self.cfg.n_users {
            user(u)
        } else if u == self.cfg.n_users {
            KEEPER.to_string()
        } else {
            user(self.cfg.n_users - 1)
        }
    }

    /// Resolve an abstract op against the current world (no side effects).
    pub fn resolve(&self, w: &World, op: &Op) -> Vec<ROp> {
        let noop = |s: &str| vec![ROp::Noop(s.to_string())];
        match op {
            Op::Bond { u, st, amt } => {
                let room = (E18 / 2).saturating_sub(w.delegated(HUB));
                if room == 0 {
                    return noop("bond: pool at E1 limit");
                }
                let pool = hub_state(w);
                let p = if *st { pool.total_bond_stsei_amount.u128() } else { pool.total_bond_bsei_amount.u128() };
                let mut amount = amt.resolve(p.max(1_000_000)).min(room);
                // envelope E1 also bounds the token supplies: at a low rate a payment mints payment / rate tokens
                let (rate, sup) = if *st { (pool.stsei_exchange_rate, supply(w, STSEI)) } else { (pool.bsei_exchange_rate, supply(w, BSEI)) };
                let mint_room = E18.saturating_sub(sup);
                amount = amount.min(crate::util::mul_floor(mint_room, rate));
                if amount == 0 {
                    return noop("bond: token supply at E1 limit");
                }
                vec![ROp::Bond { user: self.user(*u), st: *st, amount }]
            }
            Op::BondBad { u, st, kind } => vec![ROp::BondBad { user: self.user(*u), st: *st, kind: *kind }],
            Op::Unbond { u, st, frac } | Op::Convert { u, st, frac } => {
                let convert = matches!(op, Op::Convert { .. });
                let user = self.holder(w, *u, *st);
                let b = bal(w, tok(*st), &user);
                if b == 0 {
                    return noop("hook: no balance");
                }
                let mut amount = frac_of(b, *frac);
                if convert {
                    amount = convert_cap(w, *st, amount);
                    if amount == 0 {
                        return noop("convert: destination supply at E1 limit");
                    }
                }
                vec![ROp::Hook { owner: user.clone(), caller: user, st: *st, amount, convert }]
            }
            Op::HookFrom { owner, spender, st, frac, convert } => {
                let owner = self.holder(w, *owner, *st);
                let mut spender = self.user(*spender);
                if spender == owner {
                    spender = KEEPER.to_string();
                }
                let b = bal(w, tok(*st), &owner);
                if b == 0 {
                    return noop("hook_from: no balance");
                }
                let mut amount = frac_of(b, *frac);
                if *convert {
                    amount = convert_cap(w, *st, amount);
                    if amount == 0 {
                        return noop("convert: destination supply at E1 limit");
                    }
                }
                vec![
                    ROp::Allow { owner: owner.clone(), spender: spender.clone(), st: *st, amount, exp: "never".into() },
                    ROp::Hook { owner, caller: spender, st: *st, amount, convert: *convert },
                ]
            }
            Op::Withdraw { u } => vec![ROp::Withdraw { user: self.user(*u) }],
            Op::Transfer { u, to, st, frac } => {
                let from = self.holder(w, *u, *st);
                let b = bal(w, tok(*st), &from);
                if b == 0 {
                    return noop("transfer: no balance");
                }
                vec![ROp::Transfer { from, to: self.recipient(*to), st: *st, amount: frac_of(b, *frac) }]
            }
            Op::SendSink { u, st, frac } => {
                let from = self.holder(w, *u, *st);
                let b = bal(w, tok(*st), &from);
                if b == 0 {
                    return noop("send_sink: no balance");
                }
                vec![ROp::SendSink { from, st: *st, amount: frac_of(b, *frac) }]
            }
            Op::Allow { u, spender, st, frac, exp } => {
                let owner = self.user(*u);
                let mut sp = self.user(*spender);
                if sp == owner {
                    sp = KEEPER.to_string();
                }
                let b = bal(w, tok(*st), &owner).max(1000);
                let exp = match exp {
                    0 | 1 => "never".to_string(),
                    2 => format!("height:{}", w.height + 2),
                    3 => format!("time:{}", w.time + 40),
                    _ => format!("time:{}", w.time + 1),
                };
                vec![ROp::Allow { owner, spender: sp, st: *st, amount: frac_of(b, *frac), exp }]
            }
            Op::Disallow { u, spender, st, frac } => {
                let owner = self.user(*u);
                let mut sp = self.user(*spender);
                if sp == owner {
                    sp = KEEPER.to_string();
                }
                let b = bal(w, tok(*st), &owner).max(1000);
                vec![ROp::Disallow { owner, spender: sp, st: *st, amount: frac_of(b, *frac) }]
            }
            Op::TransferFrom { owner, spender, to, st, frac } => {
                let owner = self.user(*owner);
                let mut sp = self.user(*spender);
                if sp == owner {
                    sp = KEEPER.to_string();
                }
                let a = allowance(w, tok(*st), &owner, &sp).min(bal(w, tok(*st), &owner));
                if a == 0 {
                    return noop("transfer_from: nothing spendable");
                }
                vec![ROp::TransferFrom { owner, spender: sp, to: self.recipient(*to), st: *st, amount: frac_of(a, *frac) }]
            }
            Op::BurnFrom { owner, spender, st, frac } => {
                let owner = self.holder(w, *owner, *st);
                let mut sp = self.user(*spender);
                if sp == owner {
                    sp = KEEPER.to_string();
                }
                let b = bal(w, tok(*st), &owner);
                if b == 0 {
                    return noop("burn_from: no balance");
                }
                let amount = frac_of(b, *frac);
                // grant, then burn (two transactions)
                vec![
                    ROp::Allow { owner: owner.clone(), spender: sp.clone(), st: *st, amount, exp: "never".into() },
                    ROp::BurnFrom { owner, spender: sp, st: *st, amount },
                ]
            }
            Op::DirectBurn { u, st, frac } => {
                let user = self.user(*u);
                let b = bal(w, tok(*st), &user).max(10);
                vec![ROp::DirectBurn { user, st: *st, amount: frac_of(b, *frac) }]
            }
            Op::DirectMint { u, st, amt } => {
                vec![ROp::DirectMint { user: self.user(*u), st: *st, amount: amt.resolve(1_000_000) }]
            }
            Op::Claim { u, to } => {
                // prefer (3 times out of 4) a holder that has something to claim
                let mut who = self.claimant(*u);
                if *u % 4 != 3 {
                    let n = self.cfg.n_users;
                    let u0 = clampu(*u, n);
                    if let Some(x) = (0..n).map(|k| user((u0 + k) % n)).find(|x| reward_accrued(w, x) >= 1) {
                        who = x;
                    }
                }
                // recipient index 5 names the reward contract itself
                vec![ROp::Claim { user: who, to: to.map(|t| if t == 5 { REWARD.to_string() } else { self.user(t) }) }]
            }
            Op::Accrue { v, coin, amt } => {
                // first validator at index >= v (wrapping) on which the hub has stake
                let n = self.cfg.n_vals;
                let v0 = clampu(*v, n);
                let validator = match (0..n).map(|k| val((v0 + k) % n)).find(|x| w.delegation(HUB, x) > 0) {
                    Some(x) => x,
                    None => return noop("accrue: hub has no delegation"),
                };
                let denom = [USEI, KUSD, UATOM, UJUNK, UIBC][(*coin as usize).min(4)];
                let mut amount = amt.resolve(1_000_000);
                // envelope E1: keep every balance, pool and the reward index in range
                if denom != UJUNK {
                    amount = amount.min(self.reward_room(denom));
                }
                if amount == 0 {
                    return noop("accrue: reward budget exhausted");
                }
                vec![ROp::Accrue { validator, denom: denom.to_string(), amount }]
            }
            Op::UpdateIndex { by } => {
                vec![ROp::UpdateIndex { by: if *by == 0 { UPDATER.to_string() } else { self.user(*by - 1) } }]
            }
            Op::CheckSlashing { u } => vec![ROp::CheckSlashing { by: self.user(*u) }],
            Op::Reconfig { c } => vec![ROp::Reconfig { which: *c % 8 }],
            Op::Migrate { c } => vec![ROp::Migrate { contract: [HUB, REWARD, DISP, REG, BSEI][(*c as usize) % 5].to_string() }],
            Op::Advance { clock } => {
                let secs = match clock {
                    Clock::Secs(s) => (*s as u64).max(1),
                    Clock::Long => self.hub_unbonding(w) + hub_params(w).epoch_period + 1,
                    Clock::Epoch(d) => {
                        let s = hub_state(w);
                        let target = (s.last_unbonded_time + hub_params(w).epoch_period) as i128 + *d as i128;
                        (target - w.time as i128).max(1) as u64
                    }
                    Clock::Unbond(d) => {
                        let h = hub_history(w);
                        match h.iter().find(|h| !h.released) {
                            Some(h) => {
                                let target = (h.time + self.hub_unbonding(w)) as i128 + *d as i128;
                                (target - w.time as i128).max(1) as u64
                            }
                            None => 1,
                        }
                    }
                    Clock::UnbondYoungest(d) => {
                        let h = hub_history(w);
                        match h.iter().rev().find(|h| !h.released) {
                            Some(h) => {
                                let target = (h.time + self.hub_unbonding(w)) as i128 + *d as i128;
                                (target - w.time as i128).max(1) as u64
                            }
                            None => 1,
                        }
                    }
                };
                vec![ROp::Advance { secs: secs.min(100_000) }]
            }
            Op::Slash { v: 255, permille, unbonding } => {
                // every validator slashed by the same fraction (one event per validator): with round delegations the
                // rates land exactly on 1 - permille/1000, e.g. exactly on a configured threshold
                let permille = (*permille).clamp(1, 500);
                let total = w.delegated(HUB);
                if total == 0 {
                    return noop("slash-all: nothing at stake");
                }
                let after: u128 = (0..self.cfg.n_vals).map(|i| w.delegation(HUB, &val(i)) * (1000 - permille as u128) / 1000).sum();
                let s = hub_state(w);
                if s.total_bond_bsei_amount.u128() + s.total_bond_stsei_amount.u128() > 0 && after == 0 {
                    return noop("slash-all: would leave the hub without stake (E4)");
                }
                let floor = cosmwasm_std::Decimal::from_ratio(1u128, 100_000u128);
                if s.bsei_exchange_rate < floor || s.stsei_exchange_rate < floor {
                    return noop("slash-all: rate already near the E1 floor");
                }
                (0..self.cfg.n_vals).map(|i| ROp::Slash { validator: val(i), permille, unbonding: *unbonding }).collect()
            }
            Op::Slash { v, permille, unbonding } => {
                let validator = self.val(*v);
                let permille = (*permille).clamp(1, 500);
                let cur = w.delegation(HUB, &validator);
                let has_unb = w.unbondings.iter().any(|u| u.validator == validator && u.delegator == HUB);
                if cur == 0 && !(has_unb && *unbonding) {
                    return noop("slash: nothing at stake on that validator");
                }
                // envelope E4: never slash the hub's total stake to zero while it books stake
                let total = w.delegated(HUB);
                let after = total - cur + cur * (1000 - permille as u128) / 1000;
                let s = hub_state(w);
                if s.total_bond_bsei_amount.u128() + s.total_bond_stsei_amount.u128() > 0 && after == 0 {
                    return noop("slash: would leave the hub without stake (E4)");
                }
                // envelope E1: rates stay above 1e-6
                let floor = cosmwasm_std::Decimal::from_ratio(1u128, 100_000u128);
                if (s.bsei_exchange_rate < floor || s.stsei_exchange_rate < floor) && cur > 0 {
                    return noop("slash: rate already near the E1 floor");
                }
                vec![ROp::Slash { validator, permille, unbonding: *unbonding }]
            }
            Op::Donate { to, coin, amt } => {
                let to = [HUB, REWARD, DISP][(*to as usize).min(2)];
                let denom = [USEI, KUSD, UATOM, UJUNK, UIBC][(*coin as usize).min(4)];
                let mut amount = amt.resolve(1_000_000).min(E18 / 1000);
                if to != HUB && denom != UJUNK {
                    amount = amount.min(self.reward_room(denom));
                }
                if amount == 0 {
                    return noop("donate: budget exhausted");
                }
                vec![ROp::Donate { to: to.to_string(), denom: denom.to_string(), amount }]
            }
            Op::AddVal { v } => vec![ROp::AddVal { validator: self.val(*v) }],
            Op::RemoveVal { v } => vec![ROp::RemoveVal { validator: self.val(*v) }],
            Op::Redelegations { v, by } => vec![ROp::Redelegations { validator: self.val(*v), by: self.user(*by) }],
            Op::SetParams { epoch, fee, threshold } => {
                vec![ROp::SetParams { epoch: epoch.map(|e| e.max(1)), fee: *fee, threshold: *threshold }]
            }
            Op::Pause { on } => vec![ROp::Pause { on: *on }],
            Op::Stubs { swap, oracle } => vec![ROp::Stubs { swap: *swap, oracle: *oracle }],
            Op::FakeHook { u, via_fake20, convert, amt } => vec![ROp::FakeHook {
                user: self.user(*u),
                via_fake20: *via_fake20,
                convert: *convert,
                amount: amt.resolve(1_000_000),
            }],
        }
    }

    fn hub_unbonding(&self, w: &World) -> u64 {
        hub_params(w).unbonding_period
    }

    /// Execute one resolved op.
    pub fn exec(&mut self, w: &mut World, rop: &ROp) -> Step {
        w.cur_tag = hub_batch(w).id;
        let t0 = w.trace.len();
        let res: R<Vec<Ev>> = match rop {
            ROp::Noop(_) => {
                self.noops += 1;
                Ok(vec![])
            }
            ROp::Bond { user, st, amount } => {
                w.mint(user, USEI, *amount);
                let m = if *st { HubExec::BondForStSei {} } else { HubExec::Bond {} };
                let r = w.tx(user, HUB, &m, &[Coin::new(*amount, USEI)]);
                if r.is_err() {
                    w.burn_coins(user, USEI, *amount);
                }
                r
            }
            ROp::BondBad { user, st, kind } => {
                let m = if *st { HubExec::BondForStSei {} } else { HubExec::Bond {} };
                let funds: Vec<Coin> = match kind {
                    0 => vec![],
                    1 => vec![Coin::new(0, USEI)],
                    2 => vec![Coin::new(1000, KUSD)],
                    _ => vec![Coin::new(1000, USEI), Coin::new(1000, KUSD)],
                };
                for c in &funds {
                    w.mint(user, &c.denom, c.amount.u128());
                }
                let r = w.tx(user, HUB, &m, &funds);
                if r.is_err() {
                    for c in &funds {
                        w.burn_coins(user, &c.denom, c.amount.u128());
                    }
                }
                r
            }
            ROp::Hook { owner, caller, st, amount, convert } => {
                let msg = hook_msg(*convert);
                if owner == caller {
                    w.tx(caller, tok(*st), &Cw20ExecuteMsg::Send { contract: HUB.into(), amount: Uint128::new(*amount), msg }, &[])
                } else {
                    w.tx(
                        caller,
                        tok(*st),
                        &Cw20ExecuteMsg::SendFrom {
                            owner: owner.clone(),
                            contract: HUB.into(),
                            amount: Uint128::new(*amount),
                            msg,
                        },
                        &[],
                    )
                }
            }
            ROp::Withdraw { user } => w.tx(user, HUB, &HubExec::WithdrawUnbonded {}, &[]),
            ROp::Transfer { from, to, st, amount } => w.tx(
                from,
                tok(*st),
                &Cw20ExecuteMsg::Transfer { recipient: to.clone(), amount: Uint128::new(*amount) },
                &[],
            ),
            ROp::SendSink { from, st, amount } => w.tx(
                from,
                tok(*st),
                &Cw20ExecuteMsg::Send {
                    contract: SINK.into(),
                    amount: Uint128::new(*amount),
                    msg: to_json_binary(&"hello").unwrap(),
                },
                &[],
            ),
            ROp::Allow { owner, spender, st, amount, exp } => w.tx(
                owner,
                tok(*st),
                &Cw20ExecuteMsg::IncreaseAllowance {
                    spender: spender.clone(),
                    amount: Uint128::new(*amount),
                    expires: parse_exp(exp),
                },
                &[],
            ),
            ROp::Disallow { owner, spender, st, amount } => w.tx(
                owner,
                tok(*st),
                &Cw20ExecuteMsg::DecreaseAllowance { spender: spender.clone(), amount: Uint128::new(*amount), expires: None },
                &[],
            ),
            ROp::TransferFrom { owner, spender, to, st, amount } => w.tx(
                spender,
                tok(*st),
                &Cw20ExecuteMsg::TransferFrom {
                    owner: owner.clone(),
                    recipient: to.clone(),
                    amount: Uint128::new(*amount),
                },
                &[],
            ),
            ROp::BurnFrom { owner, spender, st, amount } => w.tx(
                spender,
                tok(*st),
                &Cw20ExecuteMsg::BurnFrom { owner: owner.clone(), amount: Uint128::new(*amount) },
                &[],
            ),
            ROp::DirectBurn { user, st, amount } => {
                w.tx(user, tok(*st), &Cw20ExecuteMsg::Burn { amount: Uint128::new(*amount) }, &[])
            }
            ROp::DirectMint { user, st, amount } => w.tx(
                user,
                tok(*st),
                &Cw20ExecuteMsg::Mint { recipient: user.clone(), amount: Uint128::new(*amount) },
                &[],
            ),
            ROp::Claim { user, to } => {
                w.tx(user, REWARD, &basset::reward::ExecuteMsg::ClaimRewards { recipient: to.clone() }, &[])
            }
            ROp::Accrue { validator, denom, amount } => {
                w.accrue(HUB, validator, denom, *amount);
                if denom != UJUNK {
                    self.note_reward(denom, *amount);
                }
                Ok(vec![])
            }
            ROp::UpdateIndex { by } => w.tx(by, HUB, &HubExec::UpdateGlobalIndex { airdrop_hooks: None }, &[]),
            ROp::CheckSlashing { by } => w.tx(by, HUB, &HubExec::CheckSlashing {}, &[]),
            ROp::Reconfig { which } => {
                let p = hub_params(w);
                match which {
                    0 => w.tx(
                        OWNER,
                        HUB,
                        &HubExec::UpdateParams {
                            epoch_period: Some(p.epoch_period),
                            unbonding_period: Some(p.unbonding_period),
                            peg_recovery_fee: Some(p.peg_recovery_fee),
                            er_threshold: Some(p.er_threshold),
                            paused: Some(p.paused.unwrap_or(false)),
                            reward_denom: Some(p.reward_denom.clone()),
                        },
                        &[],
                    ),
                    1 => w.tx(
                        OWNER,
                        HUB,
                        &HubExec::UpdateConfig {
                            rewards_dispatcher_contract: Some(DISP.into()),
                            validators_registry_contract: Some(REG.into()),
                            bsei_token_contract: None,
                            stsei_token_contract: None,
                            airdrop_registry_contract: Some(AIRDROP.into()),
                            rewards_contract: Some(REWARD.into()),
                            update_reward_index_addr: Some(UPDATER.into()),
                        },
                        &[],
                    ),
                    2 => w.tx(
                        OWNER,
                        REWARD,
                        &basset::reward::ExecuteMsg::UpdateConfig { hub_contract: Some(HUB.into()), reward_denom: Some(KUSD.into()), swap_contract: Some(SWAP.into()) },
                        &[],
                    ),
                    4 | 5 | 6 => w.tx(
                        OWNER,
                        DISP,
                        &basset_sei_rewards_dispatcher::msg::ExecuteMsg::UpdateSwapDenom { swap_denom: [USEI, KUSD, UATOM][(*which - 4) as usize].into(), is_add: true },
                        &[],
                    ),
                    7 => w.tx(OWNER, REWARD, &basset::reward::ExecuteMsg::UpdateSwapDenom { swap_denom: USEI.into(), is_add: true }, &[]),
                    _ => w.tx(
                        OWNER,
                        DISP,
                        &basset_sei_rewards_dispatcher::msg::ExecuteMsg::UpdateConfig {
                            hub_contract: Some(HUB.into()),
                            bsei_reward_contract: Some(REWARD.into()),
                            stsei_reward_denom: None,
                            bsei_reward_denom: Some(KUSD.into()),
                            krp_keeper_address: Some(KEEPER.into()),
                            krp_keeper_rate: Some(self.cfg.keeper_rate.dec()),
                        },
                        &[],
                    ),
                }
            }
            ROp::Migrate { contract } => {
                let msg = if contract == HUB {
                    to_json_binary(&basset::hub::MigrateMsg {
                        reward_dispatcher_contract: DISP.into(),
                        validators_registry_contract: REG.into(),
                        stsei_token_contract: STSEI.into(),
                        rewards_contract: REWARD.into(),
                    })
                    .unwrap()
                } else {
                    cosmwasm_std::Binary::from(b"{}".to_vec())
                };
                w.migrate(contract, msg)
            }
            ROp::Advance { secs } => {
                w.advance(*secs);
                Ok(w.trace[t0..].to_vec())
            }
            ROp::Slash { validator, permille, unbonding } => {
                w.slash(validator, *permille as u128, 1000, *unbonding);
                Ok(vec![])
            }
            ROp::Donate { to, denom, amount } => {
                w.mint(to, denom, *amount);
                if to != HUB && denom != UJUNK {
                    self.note_reward(denom, *amount);
                }
                Ok(vec![])
            }
            ROp::AddVal { validator } => w.tx(
                OWNER,
                REG,
                &RegExec::AddValidator {
                    validator: basset_sei_validators_registry::registry::Validator { address: validator.clone() },
                },
                &[],
            ),
            ROp::RemoveVal { validator } => {
                w.tx(OWNER, REG, &RegExec::RemoveValidator { address: validator.clone() }, &[])
            }
            ROp::Redelegations { validator, by } => {
                w.tx(by, REG, &RegExec::Redelegations { address: validator.clone() }, &[])
            }
            ROp::SetParams { epoch, fee, threshold } => {
                // `paused` is re-sent with its current value: the hub clears it when omitted
                let mut paused = hub_params(w).paused;
                // while the hub is running, half of the updates leave `paused` out (the hub defines that as "not paused")
                if !paused.unwrap_or(false) && fee.is_some() {
                    paused = None;
                }
                w.tx(
                    OWNER,
                    HUB,
                    &HubExec::UpdateParams {
                        epoch_period: *epoch,
                        unbonding_period: None,
                        peg_recovery_fee: fee.map(|d| d.dec()),
                        er_threshold: threshold.map(|d| d.dec()),
                        paused,
                        reward_denom: None,
                    },
                    &[],
                )
            }
            ROp::Pause { on } => w.tx(
                OWNER,
                HUB,
                &HubExec::UpdateParams {
                    epoch_period: None,
                    unbonding_period: None,
                    peg_recovery_fee: None,
                    er_threshold: None,
                    paused: Some(*on),
                    reward_denom: None,
                },
                &[],
            ),
            ROp::Stubs { swap, oracle } => {
                w.swap_mode = *swap;
                w.oracle_mode = *oracle;
                Ok(vec![])
            }
            ROp::FakeHook { user, via_fake20, convert, amount } => {
                let msg = hook_msg(*convert);
                if *via_fake20 {
                    // FAKEHUB may mint FAKE20; the user then Sends it to the hub with a hook
                    let _ = w.tx(
                        FAKEHUB,
                        FAKE20,
                        &Cw20ExecuteMsg::Mint { recipient: user.clone(), amount: Uint128::new(*amount) },
                        &[],
                    );
                    w.tx(user, FAKE20, &Cw20ExecuteMsg::Send { contract: HUB.into(), amount: Uint128::new(*amount), msg }, &[])
                } else {
                    w.tx(
                        user,
                        HUB,
                        &HubExec::Receive(Cw20ReceiveMsg { sender: user.clone(), amount: Uint128::new(*amount), msg }),
                        &[],
                    )
                }
            }
        };
        Step { rop: rop.clone(), res }
    }

    /// (kusd-equivalent, usei-equivalent) of a reward coin amount at the configured oracle price
    fn equivalents(&self, denom: &str, a: u128) -> (u128, u128) {
        let p = self.cfg.price.atomics().max(1);
        let cap = |x: cosmwasm_std::Uint256| cosmwasm_std::Uint128::try_from(x).map(|x| x.u128()).unwrap_or(u128::MAX);
        let a256 = cosmwasm_std::Uint256::from(a);
        if denom == USEI {
            (cap(a256 * cosmwasm_std::Uint256::from(p) / cosmwasm_std::Uint256::from(ONE)), a)
        } else {
            (a, cap(a256 * cosmwasm_std::Uint256::from(ONE) / cosmwasm_std::Uint256::from(p)))
        }
    }
    /// largest reward amount of `denom` that keeps both equivalents inside the remaining budgets
    fn reward_room(&self, denom: &str) -> u128 {
        let ku = (E18 / 4).saturating_sub(self.reward_ku_used);
        let us = (E18 / 4).saturating_sub(self.reward_us_used);
        let p = self.cfg.price.atomics().max(1);
        let cap = |x: cosmwasm_std::Uint256| cosmwasm_std::Uint128::try_from(x).map(|x| x.u128()).unwrap_or(u128::MAX);
        if denom == USEI {
            // a <= us and a * p <= ku
            us.min(cap(cosmwasm_std::Uint256::from(ku) * cosmwasm_std::Uint256::from(ONE) / cosmwasm_std::Uint256::from(p)))
        } else {
            // a <= ku and a / p <= us
            ku.min(cap(cosmwasm_std::Uint256::from(us) * cosmwasm_std::Uint256::from(p) / cosmwasm_std::Uint256::from(ONE)))
        }
    }
    fn note_reward(&mut self, denom: &str, a: u128) {
        let (ku, us) = self.equivalents(denom, a);
        self.reward_ku_used = self.reward_ku_used.saturating_add(ku);
        self.reward_us_used = self.reward_us_used.saturating_add(us);
    }
}

pub fn parse_exp(s: &str) -> Option<Expiration> {
    if s == "never" {
        Some(Expiration::Never {})
    } else if let Some(h) = s.strip_prefix("height:") {
        Some(Expiration::AtHeight(h.parse().unwrap()))
    } else if let Some(t) = s.strip_prefix("time:") {
        Some(Expiration::AtTime(cosmwasm_std::Timestamp::from_seconds(t.parse().unwrap())))
    } else {
        None
    }
}

pub fn allowance(w: &World, t: &str, owner: &str, spender: &str) -> u128 {
    let r: cw20::AllowanceResponse = w
        .query(t, &cw20::Cw20QueryMsg::Allowance { owner: owner.into(), spender: spender.into() })
        .unwrap_or_else(|e| qfail("Allowance", e));
    if r.expires.is_expired(&cosmwasm_std::BlockInfo {
        height: w.height,
        time: cosmwasm_std::Timestamp::from_seconds(w.time),
        chain_id: "minichain".into(),
    }) {
        0
    } else {
        r.allowance.u128()
    }
}
