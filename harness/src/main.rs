//! krpv — driver binary.  Usage:
//!   krpv <ID> quick|thorough        run the property's check (seed from VERIF_SEED)
//!   krpv <ID> --replay <file>       re-execute a replay file strictly, bypassing proptest
//!   krpv <ID> --show <file>         print the transcript of a history replay
use krpv::props;
use krpv::runner::*;
use std::path::Path;

fn seed() -> u64 {
    std::env::var("VERIF_SEED").ok().and_then(|s| s.trim().parse::<i128>().ok()).map(|x| x as u64).unwrap_or(20261002)
}

macro_rules! dispatch {
    ($id:expr, $f:ident, $($arg:expr),*) => {
        match $id {
            "C01" => $f(&props::c01::prop(), $($arg),*),
            "C02" => $f(&props::c02::prop(), $($arg),*),
            "C03" => $f(&props::c03::prop(), $($arg),*),
            "C04" => $f(&props::c04::prop(), $($arg),*),
            "C05" => $f(&props::c05::prop(), $($arg),*),
            "C06" => $f(&props::c06::prop(), $($arg),*),
            "C07" => $f(&props::c07::prop(), $($arg),*),
            "C08" => $f(&props::c08::prop(), $($arg),*),
            "C09" => $f(&props::c09::prop(), $($arg),*),
            "C10" => $f(&props::c10::C10, $($arg),*),
            "C11" => $f(&props::c11::C11, $($arg),*),
            "C12" => $f(&props::c12::C12, $($arg),*),
            "C13" => $f(&props::c13::prop(), $($arg),*),
            "C14" => $f(&props::c14::prop(), $($arg),*),
            "C15" => $f(&props::c15::C15, $($arg),*),
            "C16" => $f(&props::c16::prop(), $($arg),*),
            "C17" => $f(&props::c17::C17, $($arg),*),
            "C18" => $f(&props::c18::C18, $($arg),*),
            "C19" => $f(&props::c19::C19Prop, $($arg),*),
            "C20" => $f(&props::c20::C20, $($arg),*),
            other => {
                eprintln!("unknown property {}", other);
                2
            }
        }
    };
}

fn show<P: Prop>(_p: &P, path: &Path) -> i32 {
    let s = std::fs::read_to_string(path).unwrap_or_default();
    let v: serde_json::Value = serde_json::from_str(&s).unwrap_or_default();
    if let Ok(h) = serde_json::from_value::<krpv::ops::History>(v["case"].clone()) {
        for l in krpv::hist::transcript(&h, v["lenient"].as_bool().unwrap_or(true)) {
            krpv::outln!("{}", l);
        }
        0
    } else {
        krpv::outln!("{}", serde_json::to_string_pretty(&v["case"]).unwrap_or_default());
        0
    }
}

fn main() {
    install_panic_hook();
    let args: Vec<String> = std::env::args().collect();
    if args.len() < 3 {
        eprintln!("usage: krpv <ID> quick|thorough | krpv <ID> --replay <file> | krpv <ID> --show <file>");
        std::process::exit(2);
    }
    let id = args[1].as_str();
    let code = match args[2].as_str() {
        "quick" => dispatch!(id, run_prop, Tier::Quick, seed()),
        "thorough" => dispatch!(id, run_prop, Tier::Thorough, seed()),
        "--replay" => {
            let p = Path::new(args.get(3).map(|s| s.as_str()).unwrap_or(""));
            dispatch!(id, replay_cmd, p)
        }
        "--show" => {
            let p = Path::new(args.get(3).map(|s| s.as_str()).unwrap_or(""));
            dispatch!(id, show, p)
        }
        other => {
            eprintln!("unknown mode {}", other);
            2
        }
    };
    std::process::exit(code);
}
