
/// `println!` that survives a closed stdout (a consumer such as `head` going away must not turn a verdict into a
/// panic exit status)
#[macro_export]
macro_rules! outln {
    ($($arg:tt)*) => {{
        use std::io::Write;
        let _ = writeln!(std::io::stdout(), $($arg)*);
    }};
}

pub mod bytes;
pub mod chain;
pub mod deploy;
pub mod hist;
pub mod obs;
pub mod ops;
pub mod props;
pub mod runner;
pub mod util;
