pub mod chain;
pub mod deploy;
pub mod hist;
pub mod obs;
pub mod ops;
pub mod props;
pub mod runner;
pub mod util;
